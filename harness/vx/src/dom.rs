//! The five numeric domains: how to call the subject, how to judge a result against the reference,
//! how to print / encode values, and the placeholder pools.
use num_complex::Complex;
use refmodel::ev_num::{NRef, NV};
use refmodel::parse::Node;
use refmodel::rv::*;
use refmodel::vocab::Ev;
use rust_decimal::Decimal;
use std::str::FromStr;
use string_calculator::{Number, ParseError};

#[derive(Clone, Copy, Debug, PartialEq, Eq, Hash, PartialOrd, Ord)]
pub enum Kind {
    /// subject panicked
    Panic,
    /// step budget exceeded / wall-clock hang
    Budget,
    /// reference: malformed, subject: Ok
    MalformedOk,
    /// reference: well-formed and defined, subject: Err
    WellFormedErr,
    /// reference: must be Err (overflow, zero divisor ...), subject: Ok
    MustErrOk,
    /// both Ok, values differ beyond the stated tolerance
    Value,
    /// Ok although the tokenizer was never asked for the end of input
    PrefixOk,
    /// a metamorphic relation between two real runs is broken
    Relation,
}

impl Kind {
    pub fn name(self) -> &'static str {
        match self {
            Kind::Panic => "panic",
            Kind::Budget => "budget",
            Kind::MalformedOk => "malformed-accepted",
            Kind::WellFormedErr => "wellformed-rejected",
            Kind::MustErrOk => "musterr-accepted",
            Kind::Value => "value",
            Kind::PrefixOk => "prefix-ok",
            Kind::Relation => "relation",
        }
    }
}

pub enum Judge {
    Agree,
    Skip(&'static str),
    Bad(Kind, String),
}

pub trait Dom: 'static {
    type V: Clone + Send + Sync + std::fmt::Debug;
    const EV: Ev;
    fn call(s: &str, p: &Self::V) -> Result<Self::V, ParseError>;
    /// got = None means the subject returned Err
    fn judge(n: &Node, at: &Self::V, got: Option<&Self::V>) -> Judge;
    /// bit-identical (all NaNs identified)
    fn same(a: &Self::V, b: &Self::V) -> bool;
    fn show(v: &Self::V) -> String;
    /// lossless encoding for replay files
    fn enc(v: &Self::V) -> String;
    fn dec(s: &str) -> Option<Self::V>;
    /// Rust expression rebuilding the value, for the generated #[test]
    fn rust_expr(v: &Self::V) -> String;
    fn fn_name() -> &'static str;
    fn pool_full() -> Vec<Self::V>;
    fn pool_small() -> Vec<Self::V>;
    /// pool_full plus the arguments at which some function has a branch point, a pole or a range limit
    fn pool_critical() -> Vec<Self::V> {
        Self::pool_full()
    }
    fn default_at() -> Self::V;
    fn is_finite(v: &Self::V) -> bool;
    /// Display form that the library user would feed back (C19 round trip)
    fn display(v: &Self::V) -> String;
    /// an expression text made of one literal (bracketed, with a sign when negative) that denotes exactly `v`,
    /// when there is one of reasonable length
    fn literal(_v: &Self::V) -> Option<String> {
        None
    }
}

fn judge_rv<T, G>(
    rv: RV<T>,
    got: Option<&G>,
    m: impl Fn(&G, &T, Q) -> bool,
    show_t: impl Fn(&T, Q) -> String,
) -> Judge {
    match rv {
        RV::Unspec(r) => Judge::Skip(r),
        RV::MustErr(r) => match got {
            Some(_) => Judge::Bad(Kind::MustErrOk, format!("Err ({})", r)),
            None => Judge::Agree,
        },
        RV::Val(v, q) => match got {
            None => Judge::Bad(Kind::WellFormedErr, format!("Ok({})", show_t(&v, q))),
            Some(g) => {
                if q == Q::Skip {
                    Judge::Skip("value not compared")
                } else if m(g, &v, q) {
                    Judge::Agree
                } else {
                    Judge::Bad(Kind::Value, format!("Ok({})", show_t(&v, q)))
                }
            }
        },
    }
}

fn qs(q: Q) -> String {
    match q {
        Q::Exact => "exactly".into(),
        Q::Tol(t) => format!("within {:e}", t),
        Q::Near(r, t) => format!("within {} of {}", t, r),
        Q::Lambert(x) => format!("w with w*e^w = {} (1e-9 rel), w >= -1", x),
        Q::Skip => "any".into(),
    }
}

// ------------------------------------------------------------------ f64
pub struct F64;
impl Dom for F64 {
    type V = f64;
    const EV: Ev = Ev::F64;
    fn call(s: &str, p: &f64) -> Result<f64, ParseError> {
        string_calculator::eval_f64(s.to_string(), *p)
    }
    fn judge(n: &Node, at: &f64, got: Option<&f64>) -> Judge {
        judge_rv(
            refmodel::ev_f64::eval(n, *at),
            got,
            |g, w, q| f64_matches(*g, *w, q),
            |w, q| match q {
                Q::Lambert(_) | Q::Near(..) => qs(q),
                _ => format!("{:?} {}", w, qs(q)),
            },
        )
    }
    fn same(a: &f64, b: &f64) -> bool {
        a.to_bits() == b.to_bits() || (a.is_nan() && b.is_nan())
    }
    fn show(v: &f64) -> String {
        format!("{:?}", v)
    }
    fn enc(v: &f64) -> String {
        format!("{:016x}", v.to_bits())
    }
    fn dec(s: &str) -> Option<f64> {
        u64::from_str_radix(s, 16).ok().map(f64::from_bits)
    }
    fn rust_expr(v: &f64) -> String {
        format!("f64::from_bits(0x{:016x})", v.to_bits())
    }
    fn fn_name() -> &'static str {
        "eval_f64"
    }
    fn pool_full() -> Vec<f64> {
        vec![
            7.0,
            0.0,
            -0.0,
            1.0,
            -1.0,
            0.5,
            -2.5,
            -0.3,
            33.0,
            170.0,
            171.0,
            1e6,
            1e18,
            9007199254740992.0,
            f64::MAX,
            f64::MIN_POSITIVE,
            5e-324,
            f64::INFINITY,
            f64::NEG_INFINITY,
            f64::NAN,
            f64::from_bits(0xfff8_0000_0000_0001),
            f64::from_bits(0x7ff0_0000_0000_0001),
        ]
    }
    fn pool_small() -> Vec<f64> {
        vec![7.0, -0.0, f64::INFINITY, f64::NAN]
    }
    fn pool_critical() -> Vec<f64> {
        let mut p = Self::pool_full();
        p.extend(critical_f64());
        p
    }
    fn default_at() -> f64 {
        7.0
    }
    fn is_finite(v: &f64) -> bool {
        v.is_finite()
    }
    fn display(v: &f64) -> String {
        format!("{}", v)
    }
    fn literal(v: &f64) -> Option<String> {
        if !v.is_finite() {
            return None;
        }
        let a = format!("{}", v.abs());
        if a.len() > 60 {
            return None;
        }
        Some(if v.is_sign_negative() { format!("(-{})", a) } else { format!("({})", a) })
    }
}


/// arguments at which some function has a branch point, a pole, a sign change or a range limit
pub fn critical_f64() -> Vec<f64> {
    let inv_e = -(-1.0f64).exp();
    let mut v = vec![
        inv_e,
        f64::from_bits(inv_e.to_bits() + 1),
        f64::from_bits(inv_e.to_bits() - 1),
        -0.36787944117144,
        -0.367879441171443,
        (-1.0f64).exp(),
        std::f64::consts::E,
        std::f64::consts::PI,
        -std::f64::consts::PI,
        std::f64::consts::FRAC_PI_2,
        -std::f64::consts::FRAC_PI_2,
        std::f64::consts::FRAC_PI_4,
        2.0 * std::f64::consts::PI,
        1.0 - f64::EPSILON / 2.0,
        1.0 + f64::EPSILON,
        -1.0 + f64::EPSILON / 2.0,
        -1.0 - f64::EPSILON,
        2.0,
        -2.0,
        1.5,
        -0.5,
        -1.5,
        -170.5,
        170.6,
        171.7,
        -171.5,
        143.0,
        150.0,
        150.5,
        -150.5,
        709.0,
        709.782712893384,
        710.0,
        -745.0,
        -746.0,
        1023.0,
        1024.0,
        -1074.0,
        -1075.0,
        1e-300,
        1e300,
        9007199254740993.0,
        9223372036854775807.0,
        -9223372036854775808.0,
        4294967296.0,
    ];
    v.dedup();
    v
}

// ------------------------------------------------------------------ i64
pub struct I64;
impl Dom for I64 {
    type V = i64;
    const EV: Ev = Ev::I64;
    fn call(s: &str, p: &i64) -> Result<i64, ParseError> {
        string_calculator::eval_i64(s.to_string(), *p)
    }
    fn judge(n: &Node, at: &i64, got: Option<&i64>) -> Judge {
        judge_rv(
            refmodel::ev_i64::eval(n, *at),
            got,
            |g, w, q| match q {
                Q::Exact => g == w,
                Q::Near(..) | Q::Tol(_) => f64_matches(*g as f64, *w as f64, q),
                _ => true,
            },
            |w, q| match q {
                Q::Near(..) => qs(q),
                _ => format!("{} {}", w, qs(q)),
            },
        )
    }
    fn same(a: &i64, b: &i64) -> bool {
        a == b
    }
    fn show(v: &i64) -> String {
        v.to_string()
    }
    fn enc(v: &i64) -> String {
        v.to_string()
    }
    fn dec(s: &str) -> Option<i64> {
        s.parse().ok()
    }
    fn rust_expr(v: &i64) -> String {
        if *v == i64::MIN {
            "i64::MIN".into()
        } else {
            format!("{}i64", v)
        }
    }
    fn fn_name() -> &'static str {
        "eval_i64"
    }
    fn pool_full() -> Vec<i64> {
        vec![
            7,
            0,
            1,
            -1,
            2,
            -7,
            20,
            21,
            63,
            64,
            -64,
            1 << 31,
            (1 << 32) - 1,
            1 << 32,
            3037000499,
            3037000500,
            1 << 62,
            i64::MAX,
            i64::MIN,
            i64::MIN + 1,
        ]
    }
    fn pool_small() -> Vec<i64> {
        vec![7, -1, i64::MAX, i64::MIN]
    }
    fn default_at() -> i64 {
        7
    }
    fn is_finite(_: &i64) -> bool {
        true
    }
    fn display(v: &i64) -> String {
        v.to_string()
    }
    fn literal(v: &i64) -> Option<String> {
        if *v == i64::MIN {
            return None;
        }
        Some(if *v < 0 { format!("(-{})", -v) } else { format!("({})", v) })
    }
}

// ------------------------------------------------------------------ decimal
pub struct Dec;
impl Dom for Dec {
    type V = Decimal;
    const EV: Ev = Ev::Dec;
    fn call(s: &str, p: &Decimal) -> Result<Decimal, ParseError> {
        string_calculator::eval_decimal(s.to_string(), *p)
    }
    fn judge(n: &Node, at: &Decimal, got: Option<&Decimal>) -> Judge {
        judge_rv(
            refmodel::ev_dec::eval(n, *at),
            got,
            |g, w, q| refmodel::ev_dec::matches(*g, *w, q),
            |w, q| match q {
                Q::Lambert(_) => qs(q),
                _ => format!("{} {}", w, qs(q)),
            },
        )
    }
    fn same(a: &Decimal, b: &Decimal) -> bool {
        a.serialize() == b.serialize()
    }
    fn show(v: &Decimal) -> String {
        format!("{}{}", if v.is_sign_negative() && v.is_zero() { "-" } else { "" }, v)
    }
    fn enc(v: &Decimal) -> String {
        v.serialize().iter().map(|b| format!("{:02x}", b)).collect()
    }
    fn dec(s: &str) -> Option<Decimal> {
        if s.len() != 32 {
            return None;
        }
        let mut b = [0u8; 16];
        for i in 0..16 {
            b[i] = u8::from_str_radix(&s[2 * i..2 * i + 2], 16).ok()?;
        }
        Some(Decimal::deserialize(b))
    }
    fn rust_expr(v: &Decimal) -> String {
        format!("rust_decimal::Decimal::deserialize({:?})", v.serialize())
    }
    fn fn_name() -> &'static str {
        "eval_decimal"
    }
    fn pool_full() -> Vec<Decimal> {
        let d = |s: &str| Decimal::from_str(s).unwrap();
        let mut negzero = Decimal::ZERO;
        negzero.set_sign_negative(true);
        vec![
            d("7"),
            d("0"),
            negzero,
            d("1"),
            d("-1"),
            d("0.5"),
            d("1.10"),
            d("-0.3"),
            d("-2.5"),
            d("27"),
            d("28"),
            d("100"),
            d("1000000"),
            Decimal::MAX,
            Decimal::MIN,
            d("0.0000000000000000000000000001"),
            d("1.0000000000000000000000000001"),
            d("39614081257132168796771975168"),
        ]
    }
    fn pool_small() -> Vec<Decimal> {
        let d = |s: &str| Decimal::from_str(s).unwrap();
        vec![d("7"), d("-0.3"), Decimal::MAX, d("0.0000000000000000000000000001")]
    }
    fn pool_critical() -> Vec<Decimal> {
        let d = |s: &str| Decimal::from_str(s).unwrap();
        let mut p = Self::pool_full();
        for t in [
            "-0.3678794411714423215955237702",
            "-0.3678794411714423215955237701",
            "-0.3678794411714423215955237703",
            "-0.3678794411714423215",
            "-0.36787944117144232",
            "-0.36787944117144233",
            "-0.36787944117144",
            "-0.367879441171443",
            "0.3678794411714423215955237702",
            "2.7182818284590452353602874714",
            "3.1415926535897932384626433833",
            "-3.1415926535897932384626433833",
            "1.5707963267948966192313216916",
            "-1.5707963267948966192313216916",
            "0.7853981633974483096156608458",
            "6.2831853071795864769252867666",
            "0.9999999999999999999999999999",
            "-0.9999999999999999999999999999",
            "-1.0000000000000000000000000001",
            "2",
            "-2",
            "1.5",
            "-0.5",
            "-1.5",
            "26.5",
            "27.5",
            "-27.5",
            "65",
            "66",
            "66.5",
            "67",
            "-66",
            "-67",
            "95",
            "96",
            "-96",
            "143",
            "150.5",
            "-150.5",
            "4294967296",
            "9223372036854775807",
            "18446744073709551616",
            "79228162514264337593543950334",
            "0.0000000000000000000000000002",
        ] {
            p.push(d(t));
        }
        p
    }
    fn default_at() -> Decimal {
        Decimal::from(7)
    }
    fn is_finite(_: &Decimal) -> bool {
        true
    }
    fn display(v: &Decimal) -> String {
        format!("{}", v)
    }
    fn literal(v: &Decimal) -> Option<String> {
        if v.is_zero() && v.is_sign_negative() {
            return None;
        }
        Some(if v.is_sign_negative() { format!("(-{})", v.abs()) } else { format!("({})", v) })
    }
}

// ------------------------------------------------------------------ complex
pub struct Cpx;
type C = Complex<f64>;
impl Dom for Cpx {
    type V = C;
    const EV: Ev = Ev::Cpx;
    fn call(s: &str, p: &C) -> Result<C, ParseError> {
        string_calculator::eval_complex(s.to_string(), *p)
    }
    fn judge(n: &Node, at: &C, got: Option<&C>) -> Judge {
        judge_rv(
            refmodel::ev_cpx::eval(n, *at),
            got,
            |g, w, q| refmodel::ev_cpx::matches(*g, *w, q),
            |w, q| format!("{:?}+{:?}i {}", w.re, w.im, qs(q)),
        )
    }
    fn same(a: &C, b: &C) -> bool {
        F64::same(&a.re, &b.re) && F64::same(&a.im, &b.im)
    }
    fn show(v: &C) -> String {
        format!("{:?}+{:?}i", v.re, v.im)
    }
    fn enc(v: &C) -> String {
        format!("{:016x}:{:016x}", v.re.to_bits(), v.im.to_bits())
    }
    fn dec(s: &str) -> Option<C> {
        let (a, b) = s.split_once(':')?;
        Some(C::new(F64::dec(a)?, F64::dec(b)?))
    }
    fn rust_expr(v: &C) -> String {
        format!(
            "num_complex::Complex::new({}, {})",
            F64::rust_expr(&v.re),
            F64::rust_expr(&v.im)
        )
    }
    fn fn_name() -> &'static str {
        "eval_complex"
    }
    fn pool_full() -> Vec<C> {
        vec![
            C::new(7.0, 0.0),
            C::new(0.0, 0.0),
            C::new(0.0, 1.0),
            C::new(1.0, 1.0),
            C::new(-1.0, -0.0),
            C::new(-2.5, 3.0),
            C::new(0.3, -0.4),
            C::new(f64::NAN, 0.0),
            C::new(0.0, f64::NAN),
            C::new(f64::INFINITY, 0.0),
            C::new(0.0, f64::NEG_INFINITY),
            C::new(f64::INFINITY, f64::INFINITY),
            C::new(f64::MAX, f64::MAX),
            C::new(5e-324, -5e-324),
            C::new(-0.0, 0.0),
        ]
    }
    fn pool_small() -> Vec<C> {
        vec![
            C::new(7.0, 0.0),
            C::new(-2.5, 3.0),
            C::new(f64::NAN, 0.0),
            C::new(f64::INFINITY, f64::INFINITY),
        ]
    }
    fn pool_critical() -> Vec<C> {
        let mut p = Self::pool_full();
        for x in critical_f64() {
            p.push(C::new(x, 0.0));
            p.push(C::new(x, -0.0));
            p.push(C::new(0.0, x));
        }
        for (a, b) in [(1.0, 0.0), (-1.0, 0.0), (0.0, 1.0), (0.0, -1.0), (1.0, -0.0), (-1.0, 1e-300), (2.0, 0.0), (-2.0, -0.0), (0.0, 2.0), (0.0, -2.0), (1e-300, 1.0), (-1e-300, -1.0)] {
            p.push(C::new(a, b));
        }
        p
    }
    fn default_at() -> C {
        C::new(7.0, 0.0)
    }
    fn is_finite(v: &C) -> bool {
        v.re.is_finite() && v.im.is_finite()
    }
    fn display(v: &C) -> String {
        format!("{}", v)
    }
    fn literal(v: &C) -> Option<String> {
        // a real literal denotes re + 0i
        if v.im == 0.0 && v.im.is_sign_positive() && v.re.is_finite() && v.re.is_sign_positive() {
            let a = format!("{}", v.re);
            if a.len() <= 60 {
                return Some(format!("({})", a));
            }
        }
        None
    }
}

// ------------------------------------------------------------------ number
pub struct Num;
pub fn nv_of(n: &Number) -> NV {
    match n {
        Number::Integer(i) => NV::Int(*i),
        Number::Float(f) => NV::Float(*f),
    }
}
pub fn number_of(n: NV) -> Number {
    match n {
        NV::Int(i) => Number::Integer(i),
        NV::Float(f) => Number::Float(f),
    }
}
impl Dom for Num {
    type V = Number;
    const EV: Ev = Ev::Num;
    fn call(s: &str, p: &Number) -> Result<Number, ParseError> {
        string_calculator::eval_number(s.to_string(), p.clone())
    }
    fn judge(n: &Node, at: &Number, got: Option<&Number>) -> Judge {
        judge_rv(
            refmodel::ev_num::eval(n, nv_of(at)),
            got,
            |g, w: &NRef, q| refmodel::ev_num::matches(nv_of(g), *w, q),
            |w, q| match q {
                Q::Lambert(_) => qs(q),
                _ => format!(
                    "{:?}{} {}",
                    w.v,
                    if w.typed { "" } else { " (numeric value, either variant)" },
                    qs(q)
                ),
            },
        )
    }
    fn same(a: &Number, b: &Number) -> bool {
        match (a, b) {
            (Number::Integer(x), Number::Integer(y)) => x == y,
            (Number::Float(x), Number::Float(y)) => F64::same(x, y),
            _ => false,
        }
    }
    fn show(v: &Number) -> String {
        format!("{:?}", v)
    }
    fn enc(v: &Number) -> String {
        match v {
            Number::Integer(i) => format!("I{}", i),
            Number::Float(f) => format!("F{:016x}", f.to_bits()),
        }
    }
    fn dec(s: &str) -> Option<Number> {
        if let Some(r) = s.strip_prefix('I') {
            r.parse().ok().map(Number::Integer)
        } else if let Some(r) = s.strip_prefix('F') {
            F64::dec(r).map(Number::Float)
        } else {
            None
        }
    }
    fn rust_expr(v: &Number) -> String {
        match v {
            Number::Integer(i) => format!("Number::Integer({})", I64::rust_expr(i)),
            Number::Float(f) => format!("Number::Float({})", F64::rust_expr(f)),
        }
    }
    fn fn_name() -> &'static str {
        "eval_number"
    }
    fn pool_full() -> Vec<Number> {
        use Number::*;
        vec![
            Integer(7),
            Integer(0),
            Integer(1),
            Integer(-1),
            Integer(20),
            Integer(21),
            Integer(1 << 53),
            Integer(3037000500),
            Integer(i64::MAX),
            Integer(i64::MIN),
            Float(7.0),
            Float(0.5),
            Float(-0.0),
            Float(2.5),
            Float(-2.5),
            Float(170.0),
            Float(35.0),
            Float(20.0),
            Float(1e19),
            Float(-0.3),
            Float(f64::MAX),
            Float(5e-324),
            Float(f64::NAN),
            Float(f64::INFINITY),
            Float(f64::NEG_INFINITY),
        ]
    }
    fn pool_small() -> Vec<Number> {
        use Number::*;
        vec![Integer(7), Integer(i64::MIN), Float(2.5), Float(f64::NAN)]
    }
    fn pool_critical() -> Vec<Number> {
        let mut p = Self::pool_full();
        p.extend(critical_f64().into_iter().map(Number::Float));
        for i in [2, -2, 3, 63, 64, 65, -63, -64, 170, 171, -171, 143, 150, 709, 710, -745, 1023, 1024, -1074, -1075, 9007199254740993, 9007199254740992, i64::MIN + 1, i64::MAX - 1] {
            p.push(Number::Integer(i));
        }
        p
    }
    fn default_at() -> Number {
        Number::Integer(7)
    }
    fn is_finite(v: &Number) -> bool {
        match v {
            Number::Integer(_) => true,
            Number::Float(f) => f.is_finite(),
        }
    }
    fn display(v: &Number) -> String {
        match v {
            Number::Integer(i) => i.to_string(),
            Number::Float(f) => format!("{}", f),
        }
    }
    fn literal(v: &Number) -> Option<String> {
        match v {
            Number::Integer(i) => I64::literal(i),
            Number::Float(f) => {
                if !f.is_finite() || (*f == 0.0 && f.is_sign_negative()) {
                    return None;
                }
                let mut a = format!("{}", f.abs());
                if !a.contains('.') {
                    a.push_str(".0");
                }
                if a.len() > 60 {
                    return None;
                }
                Some(if *f < 0.0 { format!("(-{})", a) } else { format!("({})", a) })
            }
        }
    }
}
