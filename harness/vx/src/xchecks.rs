//! C15: the evaluators agree on their common sub-language (each string evaluated by both members of a pair;
//! the reference only decides whether the stated restriction holds).
use crate::checks::{tok_run, ONLY_DEFAULT};
use crate::ctx::*;
use crate::dom::*;
use crate::etok::*;
use crate::etree::*;
use crate::report::*;
use crate::sut::*;
use refmodel::parse::*;
use refmodel::rv::*;
use refmodel::vocab::Func;
use rust_decimal::prelude::ToPrimitive;
use rust_decimal::Decimal;
use serde_json::json;
use string_calculator::Number;

fn children(n: &Node) -> Vec<&Node> {
    match &n.e {
        Expr::Neg(x) | Expr::Pos(x) | Expr::Post(_, x) | Expr::Sup(x, _) | Expr::Group(_, x) => vec![x],
        Expr::Bin(_, l, r) => vec![l, r],
        Expr::Call(_, a) => a.iter().collect(),
        _ => vec![],
    }
}

// ---- (i64, number): integer expressions with exact division only
fn int_sublanguage(n: &Node, at: i64) -> bool {
    let ok_here = match &n.e {
        Expr::Bin(b, l, r) => match b {
            BinOp::Add | BinOp::Sub | BinOp::Mul | BinOp::Rem | BinOp::Pow | BinOp::Impl => true,
            BinOp::Div => match (refmodel::ev_i64::eval(l, at), refmodel::ev_i64::eval(r, at)) {
                (RV::Val(a, _), RV::Val(c, _)) => c != 0 && (a as i128) % (c as i128) == 0,
                _ => false,
            },
            _ => false,
        },
        Expr::Call(f, _) => matches!(f, Func::Abs | Func::Sign | Func::Min | Func::Max | Func::Mod | Func::Pow),
        Expr::Post(PostOp::Fact, _) => true,
        Expr::Post(..) => false,
        _ => true,
    };
    ok_here && children(n).iter().all(|c| int_sublanguage(c, at))
}

fn c15_int_extra(ctx: &Ctx<I64>, st: &mut Stats, rec: &Recorder) {
    let tree = match ctx.parsed {
        Parsed::WellFormed(t) => t,
        _ => return,
    };
    let pool: &[i64] = if ctx.s.contains('@') { &[7, -1, i64::MAX, i64::MIN, 3037000500, 9007199254740993] } else { &[7] };
    for p in pool {
        let ri = run::<I64>(ctx.s, p);
        st.executions += 1;
        let v = match ri.out.ok() {
            Some(v) => *v,
            None => continue,
        };
        if !int_sublanguage(tree, *p) {
            st.unspecified += 1;
            continue;
        }
        let rn = run::<Num>(ctx.s, &Number::Integer(*p));
        st.executions += 1;
        st.relations += 1;
        let ok = matches!(&rn.out, Out::Ok(Number::Integer(w)) if *w == v);
        if ok {
            st.relations_both_ok += 1;
        } else if !matches!(rn.out, Out::Panic(_) | Out::Budget(_)) {
            rec.add(make_violation::<Num>(
                "E-TOK pair (i64, number)",
                ctx.s,
                &Number::Integer(*p),
                Outcome1 {
                    kind: Kind::Relation,
                    expected: format!("Ok(Integer({})) — eval_i64's result for the same input and placeholder", v),
                    observed: match &rn.out {
                        Out::Ok(w) => format!("Ok({:?})", w),
                        o => o.tag().to_string(),
                    },
                },
                true,
            ));
        }
    }
}

// ---- (f64, number): shared f64 grammar, all intermediate values finite, below 2^53, never -0
fn f64_restriction(n: &Node, at: f64) -> bool {
    let v = match refmodel::ev_f64::eval(n, at) {
        RV::Val(v, q) => {
            if matches!(q, Q::Lambert(_)) {
                // value not produced by the reference: accept, the comparison is between the two subjects
                0.5
            } else {
                v
            }
        }
        _ => return false,
    };
    if !v.is_finite() || v.abs() >= 9007199254740992.0 || (v == 0.0 && v.is_sign_negative()) {
        return false;
    }
    // an Integer raised to a negative Integer power is excepted
    let neg_int_power = |base: &Node, e: &Node| -> bool {
        match (refmodel::ev_f64::eval(base, at), refmodel::ev_f64::eval(e, at)) {
            (RV::Val(b, _), RV::Val(x, _)) => b.fract() == 0.0 && x.fract() == 0.0 && x < 0.0,
            _ => true,
        }
    };
    match &n.e {
        Expr::Bin(BinOp::Pow, b, e) => {
            if neg_int_power(b, e) {
                return false;
            }
        }
        Expr::Call(Func::Pow, a) if a.len() == 2 => {
            if neg_int_power(&a[0], &a[1]) {
                return false;
            }
        }
        Expr::Call(Func::ILog, _) => return false,
        _ => {}
    }
    children(n).iter().all(|c| f64_restriction(c, at))
}

fn c15_f64_extra(ctx: &Ctx<F64>, st: &mut Stats, rec: &Recorder) {
    let tree = match ctx.parsed {
        Parsed::WellFormed(t) => t,
        _ => return,
    };
    let x = match ctx.base.out.ok() {
        Some(x) => *x,
        None => return,
    };
    if !f64_restriction(tree, 7.0) {
        st.unspecified += 1;
        return;
    }
    // the placeholder 7 is the Integer 7 for eval_number (a whole double is an Integer there)
    let rn = run::<Num>(ctx.s, &Number::Integer(7));
    st.executions += 1;
    st.relations += 1;
    let ok = match &rn.out {
        Out::Ok(Number::Integer(i)) => (*i as f64) == x,
        Out::Ok(Number::Float(f)) => *f == x,
        _ => false,
    };
    if ok {
        st.relations_both_ok += 1;
    } else if !matches!(rn.out, Out::Panic(_) | Out::Budget(_)) {
        rec.add(make_violation::<Num>(
            "E-TOK pair (f64, number)",
            ctx.s,
            &Number::Integer(7),
            Outcome1 {
                kind: Kind::Relation,
                expected: format!("a Number whose numeric value is exactly {:?} — eval_f64's result", x),
                observed: match &rn.out {
                    Out::Ok(w) => format!("Ok({:?})", w),
                    o => o.tag().to_string(),
                },
            },
            true,
        ));
    }
}

// ---- (f64, decimal): positive, well-conditioned + * / sqrt exp ln pow
fn dec_restriction(n: &Node) -> bool {
    let v = match refmodel::ev_f64::eval(n, 0.0) {
        RV::Val(v, _) => v,
        _ => return false,
    };
    if !(v.is_finite() && v >= 1e-9 && v <= 1e18) {
        return false;
    }
    let val = |x: &Node| match refmodel::ev_f64::eval(x, 0.0) {
        RV::Val(v, _) => v,
        _ => f64::NAN,
    };
    let cond_ok = match &n.e {
        Expr::Call(Func::Ln, a) => (val(&a[0]).ln()).abs() >= 0.05,
        Expr::Call(Func::Exp, a) => val(&a[0]).abs() <= 30.0,
        // x^y is as sensitive to x as |y| says: a base that is not a double is off by 1e-16 before eval_f64 starts
        Expr::Call(Func::Pow, a) => (val(&a[1]) * val(&a[0]).ln()).abs() <= 30.0 && val(&a[1]).abs() <= 1e5,
        Expr::Bin(BinOp::Pow, b, e) => (val(e) * val(b).ln()).abs() <= 30.0 && val(e).abs() <= 1e5,
        _ => true,
    };
    cond_ok && children(n).iter().all(|c| dec_restriction(c))
}

fn judge_dec_vs_f64(n: &Node, _at: &Decimal, got: Option<&Decimal>) -> Judge {
    if !dec_restriction(n) {
        return Judge::Skip("outside the positive well-conditioned sub-language");
    }
    let text = render(n);
    let rf = run::<F64>(&text, &0.0);
    let x = match rf.out.ok() {
        Some(x) if x.is_finite() => *x,
        _ => return Judge::Skip("eval_f64 has no finite value"),
    };
    match got {
        None => Judge::Bad(Kind::Relation, format!("eval_f64's value {:?} within 1e-9 relative", x)),
        Some(d) => {
            let g = d.to_f64().unwrap_or(f64::NAN);
            if (g - x).abs() <= 1e-9 * x.abs() {
                Judge::Agree
            } else {
                Judge::Bad(Kind::Relation, format!("eval_f64's value {:?} within 1e-9 relative", x))
            }
        }
    }
}

pub fn c15(cx: &RunCtx) {
    cx.assume("each string is evaluated by both evaluators of a pair through the public API; the reference tree is used only to decide whether the stated restriction (exact division, finite, below 2^53, no negative zero, in-domain, well-conditioned) holds");
    let quick = cx.tier == Tier::Quick;
    let none: [Kind; 0] = [];
    // (i64, number)
    if cx.wants("i64") || cx.wants("number") {
        let a: Vec<String> = ["2", "3", "7", "21", "9007199254740993", "9007199254740992", "9223372036854775807", "@", "+", "-", "*", "/", "%", "^", "!", "(", ")", ",", "abs(", "sgn(", "min(", "max(", "mod(", "pow(", "²"]
            .iter()
            .map(|s| s.to_string())
            .collect();
        tok_run::<I64>(cx, "E-TOK pair (i64, number) integer alphabet", a, if quick { 5 } else { 6 }, 9, ONLY_DEFAULT, &none, Some(&c15_int_extra), 2400);
        // min / max / mod / % / - over every ordered pair and triple of neighbouring integers beyond 2^53 (two
        // such integers round to the same double)
        let mut st = Stats::default();
        let vals = [
            "9007199254740992", "9007199254740993", "9007199254740994", "9223372036854775807", "9223372036854775806", "(-9223372036854775807)", "(-9223372036854775806)",
            "(-9007199254740993)", "(-9007199254740992)", "3", "0", "@",
        ];
        let mut inputs: Vec<String> = vec![];
        for x in vals {
            for y in vals {
                for name in ["min", "max", "mod"] {
                    inputs.push(format!("{}({},{})", name, x, y));
                }
                inputs.push(format!("{}%{}", x, y));
                inputs.push(format!("{}-{}", x, y));
                inputs.push(format!("sgn({}-{})", x, y));
                for z in vals {
                    for name in ["min", "max"] {
                        inputs.push(format!("{}({},{},{})", name, x, y, z));
                    }
                }
            }
        }
        for s in inputs {
            let lx = refmodel::lex::lex(refmodel::vocab::Ev::I64, &s);
            let parsed = refmodel::parse::parse_lexed(refmodel::vocab::Ev::I64, &lx);
            let base = run::<I64>(&s, &7);
            st.nodes += 1;
            st.transitions += 1;
            st.executions += 1;
            let ctx = Ctx::<I64> {
                s: &s,
                depth: 1,
                lx: &lx,
                parsed: &parsed,
                base: &base,
                engine: "E-AGG pair (i64, number) neighbouring integers beyond 2^53",
            };
            c15_int_extra(&ctx, &mut st, &cx.rec);
        }
        cx.add_run(&st, json!({"engine": "E-AGG pair (i64, number) neighbouring integers beyond 2^53", "stats": st.to_json()}));
    }
    // (f64, number)
    if cx.wants("f64") || cx.wants("number") {
        let mut a = crate::alpha::sigma_class(refmodel::vocab::Ev::F64);
        a.retain(|x| !["x", "#", "&"].contains(&x.as_str()));
        a.extend(["3", "sqrt(", "floor(", "avg("].iter().map(|s| s.to_string()));
        a.sort();
        a.dedup();
        tok_run::<F64>(cx, "E-TOK pair (f64, number) shared grammar", a, if quick { 5 } else { 6 }, 9, ONLY_DEFAULT, &none, Some(&c15_f64_extra), 2400);
        // every function name once, at depth 1 over a small operand list
        let mut st = Stats::default();
        let ops = ["0.5", "2", "3", "0.25", "7", "10", "1", "(-0.5)", "(-2)", "20", "1.5"];
        // whole operands on which an Integer fast path and the double computation may part: every power of two
        // and its neighbours, powers of ten, of three, squares, cubes, factorials; a sub-list for pairs
        let mut whole: Vec<String> = Vec::new();
        for k in 0..=52u32 {
            for d in [-1i64, 0, 1] {
                let v = (1i64 << k) + d;
                if v >= 0 {
                    whole.push(v.to_string());
                }
            }
        }
        for k in 1..=15u32 {
            whole.push(10i64.pow(k).to_string());
        }
        for k in 1..=33u32 {
            whole.push(3i64.pow(k).to_string());
        }
        for b in [5i64, 6, 7, 11, 12, 13, 100, 1000, 1024, 46340, 46341, 94906265, 94906266, 208063, 208064] {
            whole.push((b * b).to_string());
            if b < 209000 {
                whole.push((b * b * b).to_string());
            }
        }
        let mut fct = 1i64;
        for k in 1..=18i64 {
            fct *= k;
            whole.push(fct.to_string());
        }
        for v in whole.clone() {
            whole.push(format!("(-{})", v));
        }
        whole.sort();
        whole.dedup();
        let pair_list = ["2", "3", "4", "8", "9", "10", "16", "27", "32", "64", "81", "100", "125", "243", "256", "1000", "1024", "0.5", "(-2)", "(-3)", "536870912", "2147483648", "1/2", "4294967296", "0"];
        let mut seen: Vec<&str> = vec![];
        for (name, f) in refmodel::vocab::func_names(refmodel::vocab::Ev::F64) {
            if seen.contains(name) {
                continue;
            }
            seen.push(name);
            let mut inputs: Vec<String> = match f.arity() {
                refmodel::vocab::Arity::Fixed(1) => ops.iter().map(|x| format!("{}({})", name, x)).collect(),
                refmodel::vocab::Arity::Fixed(_) => ops.iter().flat_map(|x| ops.iter().map(move |y| format!("{}({},{})", name, x, y))).collect(),
                _ => ops.iter().flat_map(|x| ops.iter().map(move |y| format!("{}({},{},3)", name, x, y))).collect(),
            };
            match f.arity() {
                refmodel::vocab::Arity::Fixed(1) => inputs.extend(whole.iter().map(|x| format!("{}({})", name, x))),
                refmodel::vocab::Arity::Fixed(_) => inputs.extend(pair_list.iter().flat_map(|x| pair_list.iter().map(move |y| format!("{}({},{})", name, x, y)))),
                _ => inputs.extend(pair_list.iter().flat_map(|x| pair_list.iter().map(move |y| format!("{}({},{})", name, x, y)))),
            }
            // whole operands 1..=20000 (an Integer fast path may differ from the double computation in the last
            // bit for a sparse set of arguments only: sqrt against powf(0.5) first at 2921)
            match f.arity() {
                refmodel::vocab::Arity::Fixed(1) => inputs.extend((1..=20000).map(|x| format!("{}({})", name, x))),
                refmodel::vocab::Arity::Fixed(_) => {
                    for c in ["2", "3", "0.5", "10"] {
                        inputs.extend((1..=20000).map(|x| format!("{}({},{})", name, c, x)));
                        inputs.extend((1..=20000).map(|x| format!("{}({},{})", name, x, c)));
                    }
                }
                _ => {}
            }
            // exponents at and beyond 2^32 (where an Integer power routine gives up) over the bases whose powers stay finite
            if *name == "pow" {
                for b in ["(-1)", "1", "0", "(-1.0)", "0.5", "(-0.5)", "1.0000000001", "(-2)", "2"] {
                    for e in ["4294967295", "4294967296", "4294967297", "4294967298", "1099511627776", "1099511627777", "9007199254740991", "9007199254740992", "(-4294967296)", "(-4294967297)"] {
                        inputs.push(format!("pow({},{})", b, e));
                        inputs.push(format!("{}^{}", b, e));
                    }
                }
            }
            // fractional operands with four decimal digits, 0.0001..4 (and the negatives with three): two copies of one
            // iteration that start or stop differently (Lambert W, series switch-overs) part in the last bit for a few
            // per cent of such arguments and for none with fewer digits
            if let refmodel::vocab::Arity::Fixed(1) = f.arity() {
                inputs.extend((1..=40000).map(|k| format!("{}({})", name, k as f64 / 10000.0)));
                inputs.extend((1..=4000).map(|k| format!("{}(-{})", name, k as f64 / 1000.0)));
            }
            use rayon::prelude::*;
            let parts: Vec<Stats> = inputs
                .par_chunks(2048)
                .map(|chunk| {
                    let mut st = Stats::default();
                    for s in chunk {
                        let lx = refmodel::lex::lex(refmodel::vocab::Ev::F64, s);
                        let parsed = refmodel::parse::parse_lexed(refmodel::vocab::Ev::F64, &lx);
                        let base = run::<F64>(s, &7.0);
                        st.nodes += 1;
                        st.transitions += 1;
                        st.executions += 1;
                        let ctx = Ctx::<F64> {
                            s,
                            depth: 1,
                            lx: &lx,
                            parsed: &parsed,
                            base: &base,
                            engine: "E-FUNC pair (f64, number)",
                        };
                        c15_f64_extra(&ctx, &mut st, &cx.rec);
                    }
                    st
                })
                .collect();
            for p in &parts {
                st.merge(p);
            }
        }
        cx.add_run(&st, json!({"engine": "E-FUNC pair (f64, number) every function name", "stats": st.to_json()}));
    }
    // (f64, complex): real operands inside the real domain
    if cx.wants("complex") || cx.wants("f64") {
        crate::cchecks::real_vs_complex(cx);
    }
    // (f64, decimal)
    if cx.wants("decimal") || cx.wants("f64") {
        let kinds = [Kind::Relation];
        let mut pool: Vec<Leaf<Dec>> = Vec::new();
        for t in ["0.5", "2", "3", "1.5", "7", "10", "0.25", "1.10", "100", "0.1", "12.5", "1000000", "0.000001", "123456789", "0.000000001", "1000000000000", "0.999999", "1.000001", "65.5", "27"] {
            pool.push(Leaf::of(lit(t)));
        }
        let mut bins: Vec<BinKind> = [BinOp::Add, BinOp::Mul, BinOp::Div, BinOp::Pow].iter().map(|b| BinKind::Op(*b)).collect();
        bins.push(BinKind::Call(Func::Pow));
        let cfg = TreeCfg::<Dec> {
            engine: "E-TREE pair (f64, decimal) positive well-conditioned".into(),
            bins,
            uns: vec![UnOp::Call(Func::Sqrt), UnOp::Call(Func::Exp), UnOp::Call(Func::Ln)],
            pool,
            pool3: vec![],
            depth: 2,
            kinds: &kinds,
            judge: Some(&judge_dec_vs_f64),
            on_ok: None,
            family: None,
        };
        let (st, d) = explore_trees::<Dec>(&cfg, &cx.rec);
        eprintln!("[C15] (f64, decimal) trees {} compared {} skipped {}", st.nodes, st.compared, st.unspecified);
        cx.add_run(&st, d);
    }
}
