//! Calling the subject: panic capture, step budget, wall-clock watchdog.
use crate::dom::Dom;
use std::panic::{catch_unwind, AssertUnwindSafe};
use std::sync::atomic::{AtomicBool, AtomicU64, AtomicUsize, Ordering};
use std::sync::Mutex;
use string_calculator::verif_hooks;

#[derive(Clone, Debug)]
pub enum Out<V> {
    Ok(V),
    Err,
    Panic(String),
    /// step budget exceeded (steps counted when it tripped)
    Budget(u64),
}

impl<V> Out<V> {
    pub fn ok(&self) -> Option<&V> {
        match self {
            Out::Ok(v) => Some(v),
            _ => None,
        }
    }
    pub fn is_err(&self) -> bool {
        matches!(self, Out::Err)
    }
    pub fn tag(&self) -> &'static str {
        match self {
            Out::Ok(_) => "ok",
            Out::Err => "err",
            Out::Panic(_) => "panic",
            Out::Budget(_) => "budget",
        }
    }
}

#[derive(Clone, Debug)]
pub struct Run<V> {
    pub out: Out<V>,
    pub steps: u64,
    pub tokens: u64,
}

pub fn budget_for(input: &str) -> u64 {
    4096 + 256 * input.chars().count() as u64
}

// ---- watchdog slots: which input is each worker thread currently evaluating
pub const NSLOTS: usize = 256;
pub struct Slot {
    pub seq: AtomicU64,
    pub cur: Mutex<String>,
}
static NEXT_SLOT: AtomicUsize = AtomicUsize::new(0);
pub static SLOTS: [Slot; NSLOTS] = {
    const S: Slot = Slot {
        seq: AtomicU64::new(0),
        cur: Mutex::new(String::new()),
    };
    [S; NSLOTS]
};
thread_local! {
    static MY_SLOT: usize = NEXT_SLOT.fetch_add(1, Ordering::Relaxed) % NSLOTS;
}
pub static WATCHDOG_ON: AtomicBool = AtomicBool::new(true);

pub fn describe_payload(p: Box<dyn std::any::Any + Send>) -> Result<u64, String> {
    if let Some(b) = p.downcast_ref::<verif_hooks::BudgetExceeded>() {
        return Ok(b.steps);
    }
    if let Some(s) = p.downcast_ref::<&str>() {
        return Err((*s).to_string());
    }
    if let Some(s) = p.downcast_ref::<String>() {
        return Err(s.clone());
    }
    Err("<non-string panic payload>".to_string())
}

pub fn run_with_budget<D: Dom>(input: &str, at: &D::V, budget: u64) -> Run<D::V> {
    let slot = MY_SLOT.with(|s| *s);
    {
        let mut c = SLOTS[slot].cur.lock().unwrap();
        c.clear();
        c.push_str(D::EV.name());
        c.push('\u{1}');
        c.push_str(&D::enc(at));
        c.push('\u{1}');
        c.push_str(input);
    }
    SLOTS[slot].seq.fetch_add(1, Ordering::SeqCst);
    verif_hooks::reset(budget);
    IN_SUBJECT.with(|c| c.set(true));
    let r = catch_unwind(AssertUnwindSafe(|| D::call(input, at)));
    IN_SUBJECT.with(|c| c.set(false));
    let steps = verif_hooks::steps();
    let tokens = verif_hooks::tokens_requested();
    verif_hooks::reset(u64::MAX);
    SLOTS[slot].seq.fetch_add(1, Ordering::SeqCst);
    let out = match r {
        Ok(Ok(v)) => Out::Ok(v),
        Ok(Err(_)) => Out::Err,
        Err(p) => match describe_payload(p) {
            Ok(steps) => Out::Budget(steps),
            Err(msg) => Out::Panic(msg),
        },
    };
    Run { out, steps, tokens }
}

pub fn run<D: Dom>(input: &str, at: &D::V) -> Run<D::V> {
    run_with_budget::<D>(input, at, budget_for(input))
}

thread_local! {
    static IN_SUBJECT: std::cell::Cell<bool> = const { std::cell::Cell::new(false) };
}

/// panics raised inside the subject are expected observations; anything else is a harness bug and is shown
pub fn silence_panics() {
    std::panic::set_hook(Box::new(|info| {
        if !IN_SUBJECT.with(|c| c.get()) {
            eprintln!("harness panic: {}", info);
        }
    }));
}

/// A hang found by the watchdog: (evaluator, placeholder encoding, input)
pub type Hang = (String, String, String);

/// Starts the watchdog thread. `on_hang` is called (once) with the stuck input; it must not return
/// normally into the exploration (the stuck thread cannot be cancelled) — it finalises and exits.
pub fn start_watchdog(limit_s: u64, on_hang: Box<dyn Fn(Hang) + Send>) {
    std::thread::spawn(move || {
        let mut last = vec![(0u64, 0u64); NSLOTS];
        loop {
            std::thread::sleep(std::time::Duration::from_millis(500));
            if !WATCHDOG_ON.load(Ordering::Relaxed) {
                continue;
            }
            for i in 0..NSLOTS {
                let s = SLOTS[i].seq.load(Ordering::SeqCst);
                if s % 2 == 1 && s == last[i].0 {
                    last[i].1 += 1;
                    if last[i].1 >= limit_s * 2 {
                        let cur = SLOTS[i].cur.lock().unwrap().clone();
                        let mut it = cur.splitn(3, '\u{1}');
                        let ev = it.next().unwrap_or("").to_string();
                        let at = it.next().unwrap_or("").to_string();
                        let inp = it.next().unwrap_or("").to_string();
                        on_hang((ev, at, inp));
                    }
                } else {
                    last[i] = (s, 0);
                }
            }
        }
    });
}
