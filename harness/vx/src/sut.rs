//! Calling the subject: panic capture, step budget, wall-clock watchdog.
use crate::dom::Dom;
use std::panic::{catch_unwind, AssertUnwindSafe};
use std::sync::atomic::{AtomicBool, AtomicU64, AtomicUsize, Ordering};
use std::sync::Mutex;
use string_calculator::verif_hooks;

#[derive(Clone, Debug)]
pub enum Out<V> {
    Ok(V),
    Err,
    Panic(String),
    /// step budget exceeded (steps counted when it tripped)
    Budget(u64),
}

impl<V> Out<V> {
    pub fn ok(&self) -> Option<&V> {
        match self {
            Out::Ok(v) => Some(v),
            _ => None,
        }
    }
    pub fn is_err(&self) -> bool {
        matches!(self, Out::Err)
    }
    pub fn tag(&self) -> &'static str {
        match self {
            Out::Ok(_) => "ok",
            Out::Err => "err",
            Out::Panic(_) => "panic",
            Out::Budget(_) => "budget",
        }
    }
}

#[derive(Clone, Debug)]
pub struct Run<V> {
    pub out: Out<V>,
    pub steps: u64,
    pub tokens: u64,
    /// bytes requested from the allocator by this thread during the call (harness-owned counting allocator)
    pub alloc_bytes: u64,
    pub alloc_count: u64,
}

// ---- counting allocator: a deterministic measure of work that does not depend on the hook points
pub struct CountingAlloc;
thread_local! {
    static ALLOC_BYTES: std::cell::Cell<u64> = const { std::cell::Cell::new(0) };
    static ALLOC_COUNT: std::cell::Cell<u64> = const { std::cell::Cell::new(0) };
}
unsafe impl std::alloc::GlobalAlloc for CountingAlloc {
    unsafe fn alloc(&self, l: std::alloc::Layout) -> *mut u8 {
        let _ = ALLOC_BYTES.try_with(|c| c.set(c.get().wrapping_add(l.size() as u64)));
        let _ = ALLOC_COUNT.try_with(|c| c.set(c.get().wrapping_add(1)));
        std::alloc::System.alloc(l)
    }
    unsafe fn dealloc(&self, p: *mut u8, l: std::alloc::Layout) {
        std::alloc::System.dealloc(p, l)
    }
    unsafe fn realloc(&self, p: *mut u8, l: std::alloc::Layout, n: usize) -> *mut u8 {
        let _ = ALLOC_BYTES.try_with(|c| c.set(c.get().wrapping_add(n as u64)));
        let _ = ALLOC_COUNT.try_with(|c| c.set(c.get().wrapping_add(1)));
        std::alloc::System.realloc(p, l, n)
    }
}
fn alloc_now() -> (u64, u64) {
    (ALLOC_BYTES.try_with(|c| c.get()).unwrap_or(0), ALLOC_COUNT.try_with(|c| c.get()).unwrap_or(0))
}

/// Allocation bound for C02, independent of where the hook points are: every allocation happens inside some
/// loop iteration or call, and no step of this code allocates more than a handful of times, so more than
/// 8 x (4096 + 256 len) allocations in one call mean more than 4096 + 256 len steps. (The unchanged tree
/// stays below 1/10 of it: its parsers clone the accumulated left operand once per operator, which is
/// quadratic in the worst case but within the statement's bound at 256 characters.)
pub fn alloc_bound(input_chars: usize) -> u64 {
    8 * (4096 + 256 * input_chars as u64)
}

pub fn budget_for(input: &str) -> u64 {
    4096 + 256 * input.chars().count() as u64
}

// ---- watchdog slots: which input is each worker thread currently evaluating
pub const NSLOTS: usize = 256;
pub struct Slot {
    pub seq: AtomicU64,
    pub cur: Mutex<String>,
}
static NEXT_SLOT: AtomicUsize = AtomicUsize::new(0);
pub static SLOTS: [Slot; NSLOTS] = {
    const S: Slot = Slot {
        seq: AtomicU64::new(0),
        cur: Mutex::new(String::new()),
    };
    [S; NSLOTS]
};
thread_local! {
    static MY_SLOT: usize = NEXT_SLOT.fetch_add(1, Ordering::Relaxed) % NSLOTS;
}
pub static WATCHDOG_ON: AtomicBool = AtomicBool::new(true);

pub fn describe_payload(p: Box<dyn std::any::Any + Send>) -> Result<u64, String> {
    if let Some(b) = p.downcast_ref::<verif_hooks::BudgetExceeded>() {
        return Ok(b.steps);
    }
    if let Some(s) = p.downcast_ref::<&str>() {
        return Err((*s).to_string());
    }
    if let Some(s) = p.downcast_ref::<String>() {
        return Err(s.clone());
    }
    Err("<non-string panic payload>".to_string())
}

pub fn run_with_budget<D: Dom>(input: &str, at: &D::V, budget: u64) -> Run<D::V> {
    let slot = MY_SLOT.with(|s| *s);
    install_altstack();
    {
        let mut c = SLOTS[slot].cur.lock().unwrap();
        c.clear();
        c.push_str(D::EV.name());
        c.push('\u{1}');
        c.push_str(&D::enc(at));
        c.push('\u{1}');
        c.push_str(input);
    }
    SLOTS[slot].seq.fetch_add(1, Ordering::SeqCst);
    verif_hooks::reset(budget);
    IN_SUBJECT.with(|c| c.set(true));
    let (b0, n0) = alloc_now();
    let r = catch_unwind(AssertUnwindSafe(|| D::call(input, at)));
    let (b1, n1) = alloc_now();
    IN_SUBJECT.with(|c| c.set(false));
    let steps = verif_hooks::steps();
    let tokens = verif_hooks::tokens_requested();
    verif_hooks::reset(u64::MAX);
    SLOTS[slot].seq.fetch_add(1, Ordering::SeqCst);
    let out = match r {
        Ok(Ok(v)) => Out::Ok(v),
        Ok(Err(_)) => Out::Err,
        Err(p) => match describe_payload(p) {
            Ok(steps) => Out::Budget(steps),
            Err(msg) => Out::Panic(msg),
        },
    };
    Run {
        out,
        steps,
        tokens,
        alloc_bytes: b1.wrapping_sub(b0),
        alloc_count: n1.wrapping_sub(n0),
    }
}

pub fn run<D: Dom>(input: &str, at: &D::V) -> Run<D::V> {
    run_with_budget::<D>(input, at, budget_for(input))
}

thread_local! {
    static IN_SUBJECT: std::cell::Cell<bool> = const { std::cell::Cell::new(false) };
}

/// panics raised inside the subject are expected observations; anything else is a harness bug and is shown
pub fn silence_panics() {
    std::panic::set_hook(Box::new(|info| {
        if !IN_SUBJECT.with(|c| c.get()) {
            eprintln!("harness panic: {}", info);
        }
    }));
}

/// A hang found by the watchdog: (evaluator, placeholder encoding, input)
pub type Hang = (String, String, String);

/// Starts the watchdog thread. `on_hang` is called (once) with the stuck input; it must not return
/// normally into the exploration (the stuck thread cannot be cancelled) — it finalises and exits.
pub fn start_watchdog(limit_s: u64, on_hang: Box<dyn Fn(Hang) + Send>) {
    std::thread::spawn(move || {
        let mut last = vec![(0u64, 0u64); NSLOTS];
        loop {
            std::thread::sleep(std::time::Duration::from_millis(500));
            if !WATCHDOG_ON.load(Ordering::Relaxed) {
                continue;
            }
            for i in 0..NSLOTS {
                let s = SLOTS[i].seq.load(Ordering::SeqCst);
                if s % 2 == 1 && s == last[i].0 {
                    last[i].1 += 1;
                    if last[i].1 >= limit_s * 2 {
                        last[i].1 = 0;
                        let cur = SLOTS[i].cur.lock().unwrap().clone();
                        let mut it = cur.splitn(3, '\u{1}');
                        let ev = it.next().unwrap_or("").to_string();
                        let at = it.next().unwrap_or("").to_string();
                        let inp = it.next().unwrap_or("").to_string();
                        on_hang((ev, at, inp));
                    }
                } else {
                    last[i] = (s, 0);
                }
            }
        }
    });
}

// ---- fatal signals: a worker that overflows its stack or aborts takes the whole process down; the
// handler records which inputs were being evaluated so that the driver can confirm and report them
static ABORT_FD: std::sync::atomic::AtomicI32 = std::sync::atomic::AtomicI32::new(-1);

extern "C" fn on_fatal_signal(sig: libc::c_int) {
    let fd = ABORT_FD.load(Ordering::Relaxed);
    if fd >= 0 {
        for i in 0..NSLOTS {
            if SLOTS[i].seq.load(Ordering::Relaxed) % 2 == 1 {
                if let Ok(cur) = SLOTS[i].cur.try_lock() {
                    let line = format!("ABORT\u{2}{}\u{2}{}\n", sig, cur.replace('\n', " "));
                    unsafe {
                        libc::write(fd, line.as_ptr() as *const libc::c_void, line.len());
                    }
                }
            }
        }
    }
    unsafe {
        libc::_exit(77);
    }
}

/// Installs handlers for SIGSEGV / SIGBUS / SIGABRT / SIGILL on an alternate stack (so that a stack
/// overflow can still be reported). `path` receives one line per input that was in flight.
pub fn install_fatal_handlers(path: &str) {
    let cpath = std::ffi::CString::new(path).unwrap();
    unsafe {
        let fd = libc::open(cpath.as_ptr(), libc::O_WRONLY | libc::O_CREAT | libc::O_TRUNC, 0o644);
        ABORT_FD.store(fd, Ordering::Relaxed);
        let mut sa: libc::sigaction = std::mem::zeroed();
        sa.sa_sigaction = on_fatal_signal as usize;
        sa.sa_flags = libc::SA_ONSTACK;
        libc::sigemptyset(&mut sa.sa_mask);
        for sig in [libc::SIGSEGV, libc::SIGBUS, libc::SIGABRT, libc::SIGILL] {
            libc::sigaction(sig, &sa, std::ptr::null_mut());
        }
    }
}

/// every thread that runs subject code needs its own alternate signal stack
pub fn install_altstack() {
    thread_local! {
        static ALT: std::cell::RefCell<Option<Vec<u8>>> = const { std::cell::RefCell::new(None) };
    }
    ALT.with(|a| {
        let mut a = a.borrow_mut();
        if a.is_none() {
            let mut buf = vec![0u8; 1 << 16];
            let ss = libc::stack_t {
                ss_sp: buf.as_mut_ptr() as *mut libc::c_void,
                ss_flags: 0,
                ss_size: buf.len(),
            };
            unsafe {
                libc::sigaltstack(&ss, std::ptr::null_mut());
            }
            *a = Some(buf);
        }
    });
}
