//! vx — bounded-exhaustive explorers for string_calculator (see /verif/DESIGN.md).
mod alpha;
mod cchecks;
mod checks;
mod ctx;
mod dom;
mod etok;
mod etree;
mod fam;
mod fchecks;
mod mchecks;
mod nchecks;
mod pchecks;
mod report;
mod sut;
mod tchecks;
mod xchecks;

use ctx::*;
use dom::*;
use std::sync::{Arc, OnceLock};

#[global_allocator]
static GLOBAL: sut::CountingAlloc = sut::CountingAlloc;

static CTX: OnceLock<Arc<RunCtx>> = OnceLock::new();

fn usage() -> ! {
    eprintln!("usage: vx check <ID> quick|thorough [--profile P] [--evidence PATH] [--ev NAME] | vx single <ev> <placeholder-enc|-> <input> | vx replay <file>");
    std::process::exit(2);
}

fn single<D: Dom>(at_enc: &str, input: &str) -> String {
    let at = if at_enc == "-" || at_enc.is_empty() {
        D::default_at()
    } else {
        D::dec(at_enc).expect("bad placeholder encoding")
    };
    let r = sut::run::<D>(input, &at);
    let lx = refmodel::lex::lex(D::EV, input);
    let parsed = refmodel::parse::parse_lexed(D::EV, &lx);
    let refv = match &parsed {
        refmodel::parse::Parsed::WellFormed(n) => {
            let j = match &r.out {
                sut::Out::Ok(v) => D::judge(n, &at, Some(v)),
                _ => D::judge(n, &at, None),
            };
            format!(
                "well-formed {} -> {}",
                refmodel::parse::show(n),
                match j {
                    Judge::Agree => "agree".to_string(),
                    Judge::Skip(r) => format!("no demand ({})", r),
                    Judge::Bad(k, e) => format!("VIOLATION {} expected {}", k.name(), e),
                }
            )
        }
        refmodel::parse::Parsed::Malformed(k) => format!("malformed at token {}", k),
        refmodel::parse::Parsed::Unspecified(r) => format!("unspecified ({})", r),
    };
    let out = match &r.out {
        sut::Out::Ok(v) => format!("Ok({}) enc={}", D::show(v), D::enc(v)),
        sut::Out::Err => "Err".to_string(),
        sut::Out::Panic(m) => format!("PANIC {}", m),
        sut::Out::Budget(s) => format!("BUDGET {}", s),
    };
    format!(
        "{} | steps={} tokens={} budget={} | reference: {}",
        out,
        r.steps,
        r.tokens,
        sut::budget_for(input),
        refv
    )
}

fn single_dispatch(ev: &str, at: &str, input: &str) -> String {
    match ev {
        "f64" => single::<F64>(at, input),
        "i64" => single::<I64>(at, input),
        "decimal" => single::<Dec>(at, input),
        "complex" => single::<Cpx>(at, input),
        "number" => single::<Num>(at, input),
        _ => usage(),
    }
}

fn main() {
    let args: Vec<String> = std::env::args().collect();
    if args.len() < 2 {
        usage();
    }
    sut::silence_panics();
    let root = std::env::var("VERIF_ROOT").unwrap_or_else(|_| "/verif".to_string());
    match args[1].as_str() {
        "single" => {
            if args.len() < 5 {
                usage();
            }
            println!("{}", single_dispatch(&args[2], &args[3], &args[4]));
        }
        "hist" => {
            pchecks::hist_main(&args[2..]);
        }
        "replay" => {
            if args.len() < 3 {
                usage();
            }
            let txt = std::fs::read_to_string(&args[2]).expect("read replay file");
            let v: serde_json::Value = serde_json::from_str(&txt).expect("replay json");
            let ev = v["evaluator"].as_str().unwrap_or("");
            let at = v["placeholder"].as_str().unwrap_or("-");
            let input = v["input"].as_str().unwrap_or("");
            println!("property {} kind {}", v["property"], v["kind"]);
            if let Some(still) = pchecks::replay_detail(&v["detail"]) {
                println!("{}", if still { "still violated" } else { "no longer violated" });
                std::process::exit(if still { 1 } else { 0 });
            }
            println!("expected: {}", v["expected"]);
            println!("recorded: {}", v["observed"]);
            let a = single_dispatch(ev, at, input);
            let b = single_dispatch(ev, at, input);
            println!("now:      {}", a);
            if a != b {
                eprintln!("replay is not deterministic:\n{}\n{}", a, b);
                std::process::exit(2);
            }
            std::process::exit(if a.contains("VIOLATION") || a.starts_with("PANIC") || a.starts_with("BUDGET") { 1 } else { 0 });
        }
        "check" => {
            if args.len() < 4 {
                usage();
            }
            let prop = args[2].clone();
            let tier = match args[3].as_str() {
                "quick" => Tier::Quick,
                "thorough" => Tier::Thorough,
                _ => usage(),
            };
            let mut profile = "release".to_string();
            let mut evidence = format!("{}/evidence/{}.json", root, prop);
            let mut only_ev = None;
            let mut i = 4;
            while i < args.len() {
                match args[i].as_str() {
                    "--profile" => {
                        profile = args[i + 1].clone();
                        i += 2;
                    }
                    "--evidence" => {
                        evidence = args[i + 1].clone();
                        i += 2;
                    }
                    "--ev" => {
                        only_ev = Some(args[i + 1].clone());
                        i += 2;
                    }
                    _ => usage(),
                }
            }
            let seed = std::env::var("VERIF_SEED").ok().and_then(|s| s.parse().ok()).unwrap_or(0);
            let cx = Arc::new(RunCtx {
                prop: prop.clone(),
                tier,
                profile,
                root: root.clone(),
                evidence_path: evidence,
                rec: report::Recorder::new(64, &prop, report::load_known(&format!("{}/known_findings.json", root))),
                runs: Default::default(),
                total: Default::default(),
                t0: std::time::Instant::now(),
                assumptions: Default::default(),
                notes: Default::default(),
                only_ev,
                seed,
            });
            let _ = CTX.set(cx.clone());
            cx.assume("rustc/std/libm, the harness and the reference model (reviewed against the property statements) are trusted; the subject is assumed deterministic (checked by C16 and by re-running every violation)");
            cx.assume("VERIF_SEED is recorded but unused: nothing in this machinery is random");
            sut::start_watchdog(
                10,
                Box::new(|(ev, at, input)| {
                    let cx = CTX.get().unwrap();
                    eprintln!("watchdog: {} stuck for 10 s on {:?}", ev, input);
                    // a starved worker on a loaded machine is not a hang: the input must also fail to return
                    // within 30 s when evaluated alone in a fresh process
                    if let Ok(exe) = std::env::current_exe() {
                        if let Ok(mut child) = std::process::Command::new(exe)
                            .args(["single", &ev, if at.is_empty() { "-" } else { &at }, &input])
                            .stdout(std::process::Stdio::null())
                            .stderr(std::process::Stdio::null())
                            .spawn()
                        {
                            let t0 = std::time::Instant::now();
                            loop {
                                match child.try_wait() {
                                    Ok(Some(_)) => {
                                        eprintln!("watchdog: {:?} returns when evaluated alone ({:.1}s): not a hang, continuing", input, t0.elapsed().as_secs_f64());
                                        cx.note(format!("watchdog false start on {:?} (worker starved; the input returns when evaluated alone)", input));
                                        return;
                                    }
                                    Ok(None) if t0.elapsed().as_secs() >= 30 => {
                                        let _ = child.kill();
                                        break;
                                    }
                                    Ok(None) => std::thread::sleep(std::time::Duration::from_millis(100)),
                                    Err(_) => break,
                                }
                            }
                        }
                    }
                    cx.rec.add(report::Violation {
                        kind: Kind::Budget,
                        ev: ev.clone(),
                        input: input.clone(),
                        at_enc: at,
                        at_show: String::new(),
                        at_rust: String::new(),
                        expected: "return within the step budget".into(),
                        observed: "no return within 10 s of wall-clock time (loop without a step counter)".into(),
                        engine: "watchdog".into(),
                        family: None,
                        detail: serde_json::json!({}),
                    });
                    cx.note(format!("exploration aborted by the watchdog on {:?}; coverage counters are partial", input));
                    let code = if cx.prop == "C02" || cx.prop == "C01" { cx.finish() } else { 3 };
                    if code == 3 {
                        eprintln!("machinery: a hang is C02's business; this check cannot continue");
                    }
                    std::process::exit(code);
                }),
            );
            // large worker stacks: a runaway recursion in the subject must trip the step budget (ticks at every
            // parser / evaluator entry) long before it can exhaust the stack
            let _ = rayon::ThreadPoolBuilder::new().stack_size(256 << 20).build_global();
            if let Ok(path) = std::env::var("VX_ABORT_FILE") {
                sut::install_fatal_handlers(&path);
            }
            if let Ok(path) = std::env::var("VX_DUMP_OUTCOMES") {
                let f = std::fs::File::create(&path).expect("create dump file");
                let _ = etree::DUMP.set(std::sync::Mutex::new(std::io::BufWriter::new(f)));
            }
            if !checks::dispatch(&cx) {
                eprintln!("unknown property {}", prop);
                std::process::exit(2);
            }
            // every violation is re-executed once outside the explorer before it is reported
            if let Some(w) = etree::DUMP.get() {
                use std::io::Write;
                let _ = w.lock().unwrap().flush();
            }
            std::process::exit(cx.finish());
        }
        _ => usage(),
    }
}
