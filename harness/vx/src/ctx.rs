//! Per-invocation context: collects engine runs, violations, and writes evidence / replays.
use crate::report::*;
use serde_json::{json, Value};
use std::sync::Mutex;
use std::time::Instant;

#[derive(Clone, Copy, PartialEq, Eq, Debug)]
pub enum Tier {
    Quick,
    Thorough,
}

pub struct RunCtx {
    pub prop: String,
    pub tier: Tier,
    pub profile: String,
    pub root: String,
    pub evidence_path: String,
    pub rec: Recorder,
    pub runs: Mutex<Vec<Value>>,
    pub total: Mutex<Stats>,
    pub t0: Instant,
    pub assumptions: Mutex<Vec<String>>,
    pub notes: Mutex<Vec<String>>,
    pub only_ev: Option<String>,
    pub seed: i64,
}

impl RunCtx {
    pub fn add_run(&self, st: &Stats, desc: Value) {
        self.total.lock().unwrap().merge(st);
        self.runs.lock().unwrap().push(desc);
    }
    pub fn assume(&self, s: &str) {
        let mut a = self.assumptions.lock().unwrap();
        if !a.iter().any(|x| x == s) {
            a.push(s.to_string());
        }
    }
    pub fn note(&self, s: String) {
        self.notes.lock().unwrap().push(s);
    }
    pub fn wants(&self, ev: &str) -> bool {
        match &self.only_ev {
            Some(e) => e == ev,
            None => true,
        }
    }
    pub fn deadline(&self, secs: u64) -> Instant {
        self.t0 + std::time::Duration::from_secs(secs)
    }

    /// Writes evidence and replay files, prints the verdict lines, returns the process exit code.
    pub fn finish(&self) -> i32 {
        let known = &self.rec.known;
        let mut list: Vec<Violation> = self.rec.list.lock().unwrap().clone();
        list.sort_by(|a, b| a.sort_key().cmp(&b.sort_key()));
        list.dedup_by(|a, b| a.ev == b.ev && a.input == b.input && a.at_enc == b.at_enc && a.kind == b.kind);
        let unknown: Vec<&Violation> = list.iter().collect();
        let mut known_hits: Vec<(String, String, u64)> = Vec::new();
        for (id, (n, example)) in self.rec.known_hits.lock().unwrap().iter() {
            let what = known.iter().find(|k| &k.id == id).map(|k| k.what.clone()).unwrap_or_default();
            known_hits.push((id.clone(), format!("{} (first instance: {})", what, example), *n));
        }
        for (id, what, n) in &known_hits {
            println!(
                "KNOWN-FINDING: property={} {} [{}; {} instance(s) seen in this run]",
                self.prop, what, id, n
            );
        }
        let mut replay_paths = Vec::new();
        let replay_dir = std::env::var("VERIF_REPLAY_DIR").unwrap_or_else(|_| format!("{}/replays", self.root));
        let _ = std::fs::create_dir_all(&replay_dir);
        for v in unknown.iter().take(12) {
            let j = replay_json(&self.prop, &self.profile, v);
            let h = fnv(format!("{}|{}|{}|{}", v.ev, v.input, v.at_enc, v.kind.name()).as_bytes());
            let path = format!("{}/{}-{:016x}.json", replay_dir, self.prop, h);
            let _ = std::fs::write(&path, serde_json::to_string_pretty(&j).unwrap());
            println!("VIOLATION property={} replay={}", self.prop, path);
            println!(
                "  [{} {} {}] input={:?} placeholder={} expected {} / observed {}",
                v.engine,
                v.ev,
                v.kind.name(),
                v.input,
                v.at_show,
                v.expected,
                v.observed
            );
            replay_paths.push(path);
        }
        let total = self.total.lock().unwrap().clone();
        // all violations seen by the engines, not only the kept ones
        let seen_total = self.rec.total();
        let unknown_n = unknown.len() as u64;
        let mut samples = total.samples.clone();
        if samples.is_empty() {
            samples.push(json!({"note": "no sample recorded"}));
        }
        let counts = self.rec.counts.lock().unwrap().clone();
        let ev = json!({
            "property_id": self.prop,
            "tier": if self.tier == Tier::Quick { "quick" } else { "thorough" },
            "seed": self.seed,
            "level": "model_checking",
            "coverage": {
                "states": total.nodes.max(1),
                "transitions": total.transitions.max(1),
                "traces_validated_against_impl": total.compared + total.relations,
                "samples": samples,
                "exhaustive": !total.capped,
                "evaluations": total.executions,
                "profile": self.profile,
                "totals": total.to_json(),
                "engine_runs": *self.runs.lock().unwrap(),
                "violations_seen_by_kind": counts,
                "violation_instances_seen": seen_total,
                "known_findings_hit": known_hits.iter().map(|(i, _, n)| json!({"id": i, "instances": n})).collect::<Vec<_>>(),
                "notes": *self.notes.lock().unwrap(),
                "replays": replay_paths,
            },
            "assumptions": *self.assumptions.lock().unwrap(),
            "wall_s": self.t0.elapsed().as_secs_f64(),
            "violations": unknown_n,
        });
        if let Some(dir) = std::path::Path::new(&self.evidence_path).parent() {
            let _ = std::fs::create_dir_all(dir);
        }
        std::fs::write(&self.evidence_path, serde_json::to_string_pretty(&ev).unwrap()).expect("write evidence");
        if unknown_n > 0 {
            1
        } else {
            0
        }
    }
}
