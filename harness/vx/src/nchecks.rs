//! C18 (Number conversions) and C19 (literals and print / re-read round trips).
use crate::ctx::*;
use crate::dom::*;
use crate::etok::{make_violation, Outcome1};
use crate::etree::*;
use crate::report::*;
use crate::sut::*;
use rayon::prelude::*;
use refmodel::big::*;
use refmodel::parse::*;
use refmodel::vocab::Ev;
use rust_decimal::Decimal;
use serde_json::json;
use std::cmp::Ordering;
use string_calculator::Number;

// ---------------------------------------------------------------- C18

fn expected_from_f64(v: f64) -> Number {
    // Integer(n) exactly when v is finite, integral and within the i64 range
    if v.is_finite() && v.fract() == 0.0 && v >= -9223372036854775808.0 && v < 9223372036854775808.0 {
        // exact: every integral double of that magnitude converts to i128 without rounding
        Number::Integer((v as i128) as i64)
    } else {
        Number::Float(v)
    }
}

fn check_from_f64(v: f64, st: &mut Stats, rec: &Recorder) {
    st.nodes += 1;
    st.transitions += 1;
    st.executions += 1;
    let got = std::panic::catch_unwind(|| Number::from(v));
    let want = expected_from_f64(v);
    let ok = match &got {
        Ok(g) => Num::same(g, &want) && match g {
            Number::Integer(n) => (*n as i128) == (v as i128) && (*n as f64) == v,
            Number::Float(f) => f.to_bits() == v.to_bits() || (f.is_nan() && v.is_nan()),
        },
        Err(_) => false,
    };
    st.compared += 1;
    if matches!(got, Ok(Number::Integer(_))) {
        st.bump("converted-to-integer", 1);
    }
    if !ok {
        rec.add(Violation {
            kind: Kind::Value,
            ev: "number".into(),
            input: format!("Number::from(f64::from_bits(0x{:016x}))", v.to_bits()),
            at_enc: format!("F{:016x}", v.to_bits()),
            at_show: format!("{:?}", v),
            at_rust: format!("Number::from(f64::from_bits(0x{:016x}))", v.to_bits()),
            expected: format!("{:?}", want),
            observed: match got {
                Ok(g) => format!("{:?}", g),
                Err(_) => "panic".into(),
            },
            engine: "E-BITS Number::from(f64)".into(),
            family: None,
            detail: json!({"bits": format!("{:016x}", v.to_bits())}),
        });
    }
}

pub fn c18(cx: &RunCtx) {
    cx.assume("the decision of Number::from(f64) (finite? integral? in range?) is constant on every class sign x exponent x position of the lowest set mantissa bit; every class is enumerated with three representatives, and every boundary double is a member of some class");
    let t0 = std::time::Instant::now();
    // sign x 2048 exponents x (mantissa zero | lowest set bit p in 0..52) x 3 representatives
    let parts: Vec<Stats> = (0u64..4096)
        .into_par_iter()
        .map(|se| {
            let mut st = Stats::default();
            let sign = se >> 11;
            let exp = se & 0x7ff;
            let hi = (sign << 63) | (exp << 52);
            check_from_f64(f64::from_bits(hi), &mut st, &cx.rec);
            for p in 0..52u64 {
                let low = 1u64 << p;
                let above = ((1u64 << 52) - 1) & !((low << 1) - 1);
                let alt = 0x000a_aaaa_aaaa_aaaau64 & above;
                for m in [low, low | above, low | alt] {
                    check_from_f64(f64::from_bits(hi | m), &mut st, &cx.rec);
                }
            }
            if st.samples.is_empty() && exp == 1086 {
                st.samples.push(json!({"from_f64_bits": format!("{:016x}", hi | 1), "value": f64::from_bits(hi | 1)}));
            }
            st
        })
        .collect();
    let mut total = Stats::default();
    for p in &parts {
        total.merge(p);
    }
    // explicit boundary doubles (all of them members of the classes above; listed for the reader)
    for v in [
        9223372036854775808.0f64,
        -9223372036854775808.0,
        9223372036854774784.0,
        -9223372036854777856.0,
        9007199254740992.0,
        9007199254740993.0,
        0.0,
        -0.0,
        0.5,
        -0.5,
        1e300,
        f64::NAN,
        f64::INFINITY,
        f64::NEG_INFINITY,
        5e-324,
        4503599627370495.5,
    ] {
        check_from_f64(v, &mut total, &cx.rec);
    }
    if cx.tier == Tier::Thorough {
        // every f32 embedded as a double: 2^32 patterns
        let parts: Vec<Stats> = (0u32..4096)
            .into_par_iter()
            .map(|hi| {
                let mut st = Stats::default();
                for lo in 0u32..(1 << 20) {
                    let b = (hi << 20) | lo;
                    check_from_f64(f32::from_bits(b) as f64, &mut st, &cx.rec);
                }
                st.samples.clear();
                st
            })
            .collect();
        for p in &parts {
            total.merge(p);
        }
    }
    // From<i64>: every power of two +-1 of both signs and the extremes
    let mut n_i = 0u64;
    let mut ints: Vec<i64> = vec![0, i64::MAX, i64::MIN, i64::MAX - 1, i64::MIN + 1];
    for k in 0..63 {
        for d in [-1i64, 0, 1] {
            ints.push((1i64 << k).wrapping_add(d));
            ints.push((1i64 << k).wrapping_add(d).wrapping_neg());
        }
    }
    for i in ints {
        n_i += 1;
        total.nodes += 1;
        total.transitions += 1;
        total.executions += 1;
        total.compared += 1;
        let got = Number::from(i);
        if !Num::same(&got, &Number::Integer(i)) {
            cx.rec.add(Violation {
                kind: Kind::Value,
                ev: "number".into(),
                input: format!("Number::from({}i64)", i),
                at_enc: format!("I{}", i),
                at_show: i.to_string(),
                at_rust: format!("Number::from({}i64)", i),
                expected: format!("Integer({})", i),
                observed: format!("{:?}", got),
                engine: "E-BITS Number::from(i64)".into(),
                family: None,
                detail: json!({}),
            });
        }
    }
    total.bump("from_i64_cases", n_i);
    cx.add_run(
        &total,
        json!({"engine": "E-BITS partition of the 2^64 double patterns + i64 boundary set", "evaluator": "number",
        "classes": 2 * 2048 * 53, "representatives_per_class": 3, "f32_embedded_sweep": cx.tier == Tier::Thorough,
        "wall_s": t0.elapsed().as_secs_f64(), "stats": total.to_json()}),
    );
}

// ---------------------------------------------------------------- C19

/// exact rational value of a finite non-negative double
fn rat_of_f64(v: f64) -> Rat {
    let bits = v.to_bits();
    let exp = ((bits >> 52) & 0x7ff) as i32;
    let frac = bits & ((1u64 << 52) - 1);
    let (m, e) = if exp == 0 { (frac, -1074) } else { (frac | (1u64 << 52), exp - 1075) };
    let mut p = Mag::from_u128(m as u128);
    let mut q = Mag::from_u128(1);
    let two = |n: i32| {
        let mut r = Mag::from_u128(1);
        let mut k = n;
        while k >= 64 {
            r = r.mul(&Mag::from_u128(1u128 << 64));
            k -= 64;
        }
        r.mul(&Mag::from_u128(1u128 << k))
    };
    if e >= 0 {
        p = p.mul(&two(e));
    } else {
        q = two(-e);
    }
    Rat::new(false, p, q)
}

fn two_pow_1024() -> Rat {
    let mut r = Mag::from_u128(1);
    for _ in 0..16 {
        r = r.mul(&Mag::from_u128(1u128 << 64));
    }
    Rat::new(false, r, Mag::from_u128(1))
}

fn cmp_rat(a: &Rat, b: &Rat) -> Ordering {
    // both non-negative
    a.cmp_abs(b)
}

/// Is `r` the correctly rounded (nearest, ties to even) double of the non-negative rational `value`?
pub fn correctly_rounded(value: &Rat, r: f64) -> bool {
    if r.is_nan() || r < 0.0 {
        return false;
    }
    let two = Rat::int(2);
    let v2 = value.mul(&two);
    if r.is_infinite() {
        // value >= (MAX + 2^1024) / 2
        let mid2 = rat_of_f64(f64::MAX).add(&two_pow_1024());
        return cmp_rat(&v2, &mid2) != Ordering::Less;
    }
    let even = r.to_bits() & 1 == 0;
    let rr = rat_of_f64(r);
    // upper midpoint
    let hi = if r == f64::MAX { two_pow_1024() } else { rat_of_f64(f64::from_bits(r.to_bits() + 1)) };
    let up2 = rr.add(&hi);
    match cmp_rat(&v2, &up2) {
        Ordering::Greater => return false,
        Ordering::Equal if !even => return false,
        _ => {}
    }
    if r > 0.0 {
        let lo = rat_of_f64(f64::from_bits(r.to_bits() - 1));
        let lo2 = rr.add(&lo);
        match cmp_rat(&v2, &lo2) {
            Ordering::Less => return false,
            Ordering::Equal if !even => return false,
            _ => {}
        }
    }
    true
}

/// (integer digits, fractional digits) of a literal DIGITS | DIGITS. | DIGITS.DIGITS | .DIGITS
fn split_literal(s: &str) -> (String, String) {
    match s.split_once('.') {
        Some((a, b)) => (a.to_string(), b.to_string()),
        None => (s.to_string(), String::new()),
    }
}

fn literal_value(s: &str) -> Rat {
    let (ip, fp) = split_literal(s);
    Rat::new(false, Mag::from_decimal_digits(&format!("{}{}", ip, fp)), Mag::pow10(fp.len() as u32))
}

pub fn literal_inputs(max_chr: usize) -> Vec<String> {
    let mut out: Vec<String> = Vec::new();
    // every string over {0 1 5 9 .} up to max_chr characters that is a literal shape
    let alpha = ['0', '1', '5', '9', '.'];
    fn rec(alpha: &[char], cur: &mut String, max: usize, out: &mut Vec<String>) {
        if !cur.is_empty() {
            let dots = cur.matches('.').count();
            if dots <= 1 && cur != "." {
                out.push(cur.clone());
            }
        }
        if cur.len() == max {
            return;
        }
        for c in alpha {
            cur.push(*c);
            rec(alpha, cur, max, out);
            cur.pop();
        }
    }
    rec(&alpha, &mut String::new(), max_chr, &mut out);
    // shapes: digit runs to 400 digits, all positions of the point, leading / trailing zeros
    for n in [1usize, 2, 5, 15, 16, 17, 18, 19, 20, 21, 22, 23, 27, 28, 29, 30, 38, 39, 40, 100, 200, 255, 256, 308, 309, 310, 400] {
        for d in ['1', '9', '4', '5'] {
            let run: String = std::iter::repeat(d).take(n).collect();
            out.push(run.clone());
            out.push(format!("{}.", run));
            out.push(format!(".{}", run));
            out.push(format!("0.{}", run));
            out.push(format!("{}.{}", run, run));
            out.push(format!("000{}", run));
            out.push(format!("{}000", run));
            out.push(format!("0.{}1", "0".repeat(n)));
            out.push(format!("1{}", "0".repeat(n)));
            out.push(format!("1{}.5", "0".repeat(n)));
        }
        for pos in [0usize, 1, n / 2, n.saturating_sub(1), n] {
            let run: String = "1234567890".chars().cycle().take(n).collect();
            let (a, b) = run.split_at(pos.min(run.len()));
            out.push(format!("{}.{}", a, b));
        }
    }
    // more than 28 digits after the point of which at most 28 are significant: leading zeros, a few digits, and
    // redundant zeros up to 28, 29, 30, 40 fractional digits
    for lead in 0..=28usize {
        for sig in ["1", "5", "15", "123", "1234567", "9999999999"] {
            for total in [28usize, 29, 30, 31, 40] {
                if lead + sig.len() > 28 || lead + sig.len() > total {
                    continue;
                }
                let frac = format!("{}{}{}", "0".repeat(lead), sig, "0".repeat(total - lead - sig.len()));
                out.push(format!("0.{}", frac));
                out.push(format!(".{}", frac));
                out.push(format!("00.{}", frac));
            }
        }
    }
    for total in [1usize, 27, 28, 29, 30, 40, 100] {
        out.push(format!("0.{}", "0".repeat(total)));
        out.push(format!(".{}", "0".repeat(total)));
        out.push(format!("000.{}", "0".repeat(total)));
    }
    // the exact decimal expansions of the midpoints between adjacent doubles (up to a few hundred digits), each as it
    // stands (a tie), a hair below and a hair above it, in every spelling of the same digits: a reader that drops
    // digits it believes redundant goes wrong exactly here
    for lit in refmodel::families::midpoint_literals() {
        out.push(lit);
    }
    // neighbourhoods of 2^53, 2^63, 2^64, 2^96, 10^28 and round-half cases
    for t in [
        "9007199254740992", "9007199254740993", "9007199254740994", "9007199254740995", "9007199254740993.0000000001",
        "9007199254740992.9999999999", "9223372036854775807", "9223372036854775808", "9223372036854775809", "18446744073709551615",
        "18446744073709551616", "79228162514264337593543950335", "79228162514264337593543950336", "7922816251426433759354395033.5",
        "10000000000000000000000000000", "9999999999999999999999999999", "0.0000000000000000000000000001", "0.00000000000000000000000000001",
        "1.0000000000000000000000000001", "1.00000000000000000000000000001", "0.1", "0.2", "0.3", "0.5", "1.5", "2.5", "05.50", "007", ".50", "5.",
        "4503599627370496.5", "4503599627370497.5", "0.49999999999999994", "1.7976931348623157e308", "179769313486231570000000000000000000000",
        "0.000000000000000000000000000000000000000000000000000001", "2.2250738585072011", "2.2250738585072014",
        "17976931348623157081452742373170435679807056752584499659891747680315726078002853876058955863276687817154045895351438246423432132688946418276846754670353751698604991057655128207624549009038932894407586850845513394230458323690322294816580855933212334827479782620414472316873817718091929988125040402618412485836",
        "179769313486231580793728971405303415079934132710037826936173778980444968292764750946649017977587207096330286416692887910946555547851940402630657488671505820681908902000708383676273854845817711531764475730270069855571366959622842914819860834936475292719074168444365510704342711559699508093042880177904174497791",
        "179769313486231580793728971405303415079934132710037826936173778980444968292764750946649017977587207096330286416692887910946555547851940402630657488671505820681908902000708383676273854845817711531764475730270069855571366959622842914819860834936475292719074168444365510704342711559699508093042880177904174497792",
    ] {
        if !t.contains('e') {
            out.push(t.to_string());
        }
    }
    out.sort();
    out.dedup();
    out
}

fn lit_violation<D: Dom>(cx: &RunCtx, s: &str, expected: String, run: &Run<D::V>) {
    cx.rec.add(make_violation::<D>(
        "E-LIT literal shapes",
        s,
        &D::default_at(),
        Outcome1 {
            kind: Kind::Value,
            expected,
            observed: match &run.out {
                Out::Ok(v) => format!("Ok({})", D::show(v)),
                Out::Err => "Err".into(),
                Out::Panic(m) => format!("panic: {}", m),
                Out::Budget(n) => format!("budget exceeded ({})", n),
            },
        },
        false,
    ));
}

fn c19_literals(cx: &RunCtx, inputs: &[String]) {
    let t0 = std::time::Instant::now();
    let parts: Vec<Stats> = inputs
        .par_chunks(512)
        .map(|chunk| {
            let mut st = Stats::default();
            for s in chunk {
                let (ip, fp) = split_literal(s);
                let has_point = s.contains('.');
                if ip.is_empty() && fp.is_empty() {
                    continue;
                }
                let value = literal_value(s);
                st.nodes += 1;
                st.transitions += 1;
                // f64
                if cx.wants("f64") {
                    let r = run::<F64>(s, &0.0);
                    st.executions += 1;
                    st.compared += 1;
                    match &r.out {
                        Out::Ok(v) if correctly_rounded(&value, *v) => {}
                        _ => lit_violation::<F64>(cx, s, "Ok(the correctly rounded double of the literal)".into(), &r),
                    }
                }
                // complex: real literal and imaginary literal
                if cx.wants("complex") {
                    let z = num_complex::Complex::new(0.0, 0.0);
                    let r = run::<Cpx>(s, &z);
                    st.executions += 1;
                    st.compared += 1;
                    match &r.out {
                        Out::Ok(v) if correctly_rounded(&value, v.re) && v.im == 0.0 => {}
                        _ => lit_violation::<Cpx>(cx, s, "Ok(correctly rounded double + 0i)".into(), &r),
                    }
                    let si = format!("{}i", s);
                    let r = run::<Cpx>(&si, &z);
                    st.executions += 1;
                    st.compared += 1;
                    match &r.out {
                        Out::Ok(v) if correctly_rounded(&value, v.im) && v.re == 0.0 => {}
                        _ => lit_violation::<Cpx>(cx, &si, "Ok(0 + correctly rounded double i)".into(), &r),
                    }
                }
                // i64 and number (Integer when there is no point)
                let int_val: Option<i64> = if !has_point { refmodel::ev_i64::lit(s) } else { None };
                if cx.wants("i64") && !has_point {
                    let r = run::<I64>(s, &0);
                    st.executions += 1;
                    st.compared += 1;
                    match (&r.out, int_val) {
                        (Out::Ok(v), Some(w)) if *v == w => {}
                        (Out::Err, None) => {}
                        _ => lit_violation::<I64>(cx, s, match int_val {
                            Some(w) => format!("Ok({})", w),
                            None => "Err (the literal does not fit i64)".into(),
                        }, &r),
                    }
                }
                if cx.wants("number") {
                    let r = run::<Num>(s, &Number::Integer(0));
                    st.executions += 1;
                    if has_point {
                        st.compared += 1;
                        match &r.out {
                            Out::Ok(Number::Float(v)) if correctly_rounded(&value, *v) => {}
                            _ => lit_violation::<Num>(cx, s, "Ok(Float(correctly rounded double))".into(), &r),
                        }
                    } else if let Some(w) = int_val {
                        st.compared += 1;
                        match &r.out {
                            Out::Ok(Number::Integer(v)) if *v == w => {}
                            _ => lit_violation::<Num>(cx, s, format!("Ok(Integer({}))", w), &r),
                        }
                    } else {
                        st.unspecified += 1;
                        if matches!(r.out, Out::Panic(_) | Out::Budget(_)) {
                            lit_violation::<Num>(cx, s, "no panic".into(), &r);
                        }
                    }
                }
                if cx.wants("decimal") {
                    let r = run::<Dec>(s, &Decimal::ZERO);
                    st.executions += 1;
                    match refmodel::ev_dec_exact::lit(s) {
                        Some(w) => {
                            st.compared += 1;
                            match &r.out {
                                Out::Ok(v) if refmodel::ev_dec_exact::matches_exact(*v, &w) => {}
                                _ => lit_violation::<Dec>(cx, s, format!("Ok({}) exactly", refmodel::ev_dec_exact::show(&w)), &r),
                            }
                        }
                        None => {
                            st.unspecified += 1;
                            if matches!(r.out, Out::Panic(_) | Out::Budget(_)) {
                                lit_violation::<Dec>(cx, s, "no panic".into(), &r);
                            }
                        }
                    }
                }
                if st.samples.is_empty() && s.len() > 20 {
                    st.samples.push(json!({"literal": s}));
                }
            }
            st
        })
        .collect();
    let mut total = Stats::default();
    for p in &parts {
        total.merge(p);
    }
    cx.add_run(
        &total,
        json!({"engine": "E-LIT literal shapes vs exact big-integer rounding oracle", "literals": inputs.len(),
        "longest": inputs.iter().map(|s| s.len()).max().unwrap_or(0), "wall_s": t0.elapsed().as_secs_f64(), "stats": total.to_json()}),
    );
}

/// print / re-read round trip on every finite Ok result
fn roundtrip<D: Dom>(text: &str, at: &D::V, v: &D::V, st: &mut Stats, rec: &Recorder, eq: &(dyn Fn(&D::V, &D::V) -> bool + Sync)) {
    if !D::is_finite(v) {
        return;
    }
    let printed = D::display(v);
    if printed.chars().count() > 4000 {
        return;
    }
    let back = run::<D>(&printed, at);
    st.relations += 1;
    st.executions += 1;
    let ok = match &back.out {
        Out::Ok(w) => {
            st.relations_both_ok += 1;
            eq(v, w)
        }
        _ => false,
    };
    if !ok {
        rec.add(make_violation::<D>(
            "E-TREE print/re-read round trip",
            &printed,
            at,
            Outcome1 {
                kind: Kind::Relation,
                expected: format!("Ok({}) — the value whose Display form this input is (result of {:?})", D::show(v), text),
                observed: match &back.out {
                    Out::Ok(w) => format!("Ok({})", D::show(w)),
                    Out::Err => "Err".into(),
                    Out::Panic(m) => format!("panic: {}", m),
                    Out::Budget(n) => format!("budget exceeded ({})", n),
                },
            },
            false,
        ));
    }
}

pub fn c19(cx: &RunCtx) {
    cx.assume("the correctly rounded double of a literal is decided by exact big-integer comparison with the two neighbouring midpoints (ties to even), not by str::parse");
    cx.assume("round trips use the Display form of every finite Ok result of the depth<=2 tree explorations of C05/C06/C07 and of complex trees; i64::MIN is excepted as the statement says");
    let inputs = literal_inputs(if cx.tier == Tier::Quick { 6 } else { 8 });
    c19_literals(cx, &inputs);
    // the same literal shapes inside expressions: what follows or precedes a literal must not change how it is read
    {
        let shapes = ["5", "5.", ".5", "0.5", "007", "05.50", "5.0", "12.25", "9007199254740993", "0.1", "1.10", "100", "0", "0.", ".0", "00", "1000000.000001"];
        let contexts = ["{}+1", "1+{}", "({})", "-{}", "{}*2", "2*{}", "{}/4", "{}^2", "2^{}", "{}(2)", "(2){}", "abs({})", "pow({},2)", "pow(2,{})", "{}!", "{}²", "{}-{}", "min({},1)", "{}°", "{}%3"];
        let mut list: Vec<String> = Vec::new();
        for sh in shapes {
            for c in contexts {
                list.push(c.replace("{}", sh));
            }
        }
        let kinds = [Kind::Value, Kind::WellFormedErr, Kind::MalformedOk, Kind::MustErrOk];
        crate::fam::run_list::<F64>(cx, "E-LIT literal shapes in context", &list, &[F64::default_at()], &kinds);
        crate::fam::run_list::<I64>(cx, "E-LIT literal shapes in context", &list, &[I64::default_at()], &kinds);
        crate::fam::run_list::<Dec>(cx, "E-LIT literal shapes in context", &list, &[Dec::default_at()], &kinds);
        crate::fam::run_list::<Num>(cx, "E-LIT literal shapes in context", &list, &[Num::default_at()], &kinds);
        let mut clist = list.clone();
        for sh in shapes {
            for c in ["{}i+1", "1+{}i", "({}i)", "-{}i", "{}i*2", "2*{}i", "{}i(2)", "abs({}i)", "{}i*{}i", "{}i²"] {
                clist.push(c.replace("{}", sh));
            }
        }
        crate::fam::run_list::<Cpx>(cx, "E-LIT literal shapes in context", &clist, &[Cpx::default_at()], &kinds);
    }
    // round trips
    let none: [Kind; 0] = [];
    use BinOp::*;
    let ops = |b: &[BinOp]| b.iter().map(|x| BinKind::Op(*x)).collect::<Vec<_>>();
    let depth = 2;
    if cx.wants("f64") {
        let hook = |t: &str, at: &f64, v: &f64, st: &mut Stats, rec: &Recorder| roundtrip::<F64>(t, at, v, st, rec, &|a, b| a == b);
        let cfg = TreeCfg::<F64> {
            engine: "E-TREE round trip f64".into(),
            bins: ops(&[Add, Sub, Mul, Div, Pow]),
            uns: vec![UnOp::Neg, UnOp::Call(refmodel::vocab::Func::Sqrt)],
            pool: {
                let mut p = crate::tchecks::pool_f64();
                for v in [5e-324, 1.5e-323, f64::MIN_POSITIVE, 2.2250738585072009e-308, 1e-310, 3e-320, 1.7976931348623157e308, 1e-292] {
                    p.push(Leaf::at(v));
                }
                p
            },
            pool3: vec![],
            depth,
            kinds: &none,
            judge: None,
            on_ok: Some(&hook),
            family: None,
        };
        let (st, d) = explore_trees::<F64>(&cfg, &cx.rec);
        cx.add_run(&st, d);
    }
    if cx.wants("i64") {
        let hook = |t: &str, at: &i64, v: &i64, st: &mut Stats, rec: &Recorder| {
            if *v != i64::MIN {
                roundtrip::<I64>(t, at, v, st, rec, &|a, b| a == b)
            }
        };
        let cfg = TreeCfg::<I64> {
            engine: "E-TREE round trip i64".into(),
            bins: ops(&[Add, Sub, Mul, Div, Rem]),
            uns: vec![UnOp::Neg],
            pool: crate::tchecks::pool_i64(),
            pool3: vec![],
            depth,
            kinds: &none,
            judge: None,
            on_ok: Some(&hook),
            family: None,
        };
        let (st, d) = explore_trees::<I64>(&cfg, &cx.rec);
        cx.add_run(&st, d);
    }
    if cx.wants("decimal") {
        let hook = |t: &str, at: &Decimal, v: &Decimal, st: &mut Stats, rec: &Recorder| roundtrip::<Dec>(t, at, v, st, rec, &|a, b| a == b);
        let cfg = TreeCfg::<Dec> {
            engine: "E-TREE round trip decimal".into(),
            bins: ops(&[Add, Sub, Mul, Div]),
            uns: vec![UnOp::Neg],
            pool: crate::tchecks::pool_dec(),
            pool3: vec![],
            depth,
            kinds: &none,
            judge: None,
            on_ok: Some(&hook),
            family: None,
        };
        let (st, d) = explore_trees::<Dec>(&cfg, &cx.rec);
        cx.add_run(&st, d);
    }
    if cx.wants("complex") {
        let hook = |t: &str, at: &num_complex::Complex<f64>, v: &num_complex::Complex<f64>, st: &mut Stats, rec: &Recorder| {
            roundtrip::<Cpx>(t, at, v, st, rec, &|a, b| a.re == b.re && a.im == b.im)
        };
        let cfg = TreeCfg::<Cpx> {
            engine: "E-TREE round trip complex".into(),
            bins: ops(&[Add, Sub, Mul, Div]),
            uns: vec![UnOp::Neg, UnOp::Call(refmodel::vocab::Func::Sqrt)],
            pool: {
                // the generic values plus components at both ends of the exponent range (subnormals, the
                // smallest normal, MAX), whose exponent-free Display forms are the longest there are
                let mut p = crate::cchecks::pool_cpx();
                for v in Cpx::pool_full() {
                    p.push(Leaf::at(v));
                }
                for (a, b) in [(5e-324, 1.5e-323), (f64::MIN_POSITIVE, -2.2250738585072009e-308), (1e-310, 1.0), (-1.0, 3e-320), (1.7976931348623157e308, -1e-300), (1e300, 1e-292), (4.9e-324, -0.0)] {
                    p.push(Leaf::at(num_complex::Complex::new(a, b)));
                }
                p
            },
            pool3: vec![],
            depth,
            kinds: &none,
            judge: None,
            on_ok: Some(&hook),
            family: None,
        };
        let (st, d) = explore_trees::<Cpx>(&cfg, &cx.rec);
        cx.add_run(&st, d);
    }
    let _ = Ev::F64;
}

#[allow(dead_code)]
pub fn unused(_: &Node) {}
