//! Metamorphic checks through the public API alone: C12 (ii), C13, C14, C20.
use crate::alpha::*;
use crate::checks::{tok_run, ONLY_DEFAULT};
use crate::ctx::*;
use crate::dom::*;
use crate::etok::*;
use crate::report::*;
use crate::sut::*;
use rayon::prelude::*;
use refmodel::lex::{Lexed, Tok};
use refmodel::parse::*;
use refmodel::vocab::*;
use serde_json::json;
use std::sync::Mutex;

fn slice(chars: &[char], a: usize, b: usize) -> String {
    chars[a..b].iter().collect()
}

fn splice(chars: &[char], a: usize, b: usize, with: &str) -> String {
    let mut s: String = chars[..a].iter().collect();
    s.push_str(with);
    s.extend(chars[b..].iter());
    s
}

fn walk<'a>(n: &'a Node, f: &mut dyn FnMut(&'a Node, Option<&'a Node>)) {
    fn go<'a>(n: &'a Node, parent: Option<&'a Node>, f: &mut dyn FnMut(&'a Node, Option<&'a Node>)) {
        f(n, parent);
        match &n.e {
            Expr::Neg(x) | Expr::Pos(x) | Expr::Post(_, x) | Expr::Sup(x, _) | Expr::Group(_, x) => go(x, Some(n), f),
            Expr::Bin(_, l, r) => {
                go(l, Some(n), f);
                go(r, Some(n), f);
            }
            Expr::Call(_, args) => {
                for a in args {
                    go(a, Some(n), f);
                }
            }
            _ => {}
        }
    }
    go(n, None, f)
}

fn same_out<D: Dom>(a: &Out<D::V>, b: &Out<D::V>) -> bool {
    match (a, b) {
        (Out::Ok(x), Out::Ok(y)) => D::same(x, y),
        (Out::Err, Out::Err) => true,
        _ => false,
    }
}

fn show_out<D: Dom>(o: &Out<D::V>) -> String {
    match o {
        Out::Ok(v) => format!("Ok({})", D::show(v)),
        Out::Err => "Err".into(),
        Out::Panic(m) => format!("panic: {}", m),
        Out::Budget(n) => format!("budget exceeded after {} steps", n),
    }
}

/// run `variant` and compare with the outcome of the original string
fn relate<D: Dom>(ctx: &Ctx<D>, what: &str, variant: &str, at: &D::V, st: &mut Stats, rec: &Recorder) {
    let r = run::<D>(variant, at);
    st.executions += 1;
    st.relations += 1;
    if r.out.ok().is_some() && ctx.base.out.ok().is_some() {
        st.relations_both_ok += 1;
    }
    if matches!(r.out, Out::Panic(_) | Out::Budget(_)) || matches!(ctx.base.out, Out::Panic(_) | Out::Budget(_)) {
        // panics and hangs are C01 / C02's business
        st.bump("relation-skipped:panic-or-budget", 1);
        return;
    }
    if !same_out::<D>(&ctx.base.out, &r.out) {
        let mut v = make_violation::<D>(
            ctx.engine,
            variant,
            at,
            Outcome1 {
                kind: Kind::Relation,
                expected: format!("{} — the outcome of {:?} ({})", show_out::<D>(&ctx.base.out), ctx.s, what),
                observed: show_out::<D>(&r.out),
            },
            true,
        );
        v.detail = json!({"original": ctx.s, "rewrite": what});
        rec.add(v);
    }
}

// ---------------------------------------------------------------- C12

fn c12_extra<D: Dom>(ctx: &Ctx<D>, st: &mut Stats, rec: &Recorder) {
    let tree = match ctx.parsed {
        Parsed::WellFormed(t) => t,
        _ => return,
    };
    let chars = &ctx.lx.chars;
    let at = D::default_at();
    let mut sites: Vec<(usize, usize, usize, usize)> = Vec::new();
    walk(tree, &mut |n, _| {
        if let Expr::Bin(BinOp::Impl, a, r) = &n.e {
            sites.push((a.span.0, a.span.1, r.span.0, r.span.1));
        }
    });
    if !sites.is_empty() {
        st.nonvacuous += 1;
    }
    for (a0, a1, r0, r1) in sites {
        let explicit = format!("({}*({}))", slice(chars, a0, a1), slice(chars, r0, r1));
        let variant = splice(chars, a0, r1, &explicit);
        relate::<D>(ctx, "juxtaposition A B rewritten as (A*(R))", &variant, &at, st, rec);
    }
}

fn c12_dom<D: Dom>(cx: &RunCtx) {
    let k = [Kind::Value, Kind::MalformedOk, Kind::WellFormedErr, Kind::Relation];
    let d = if cx.tier == Tier::Quick { 6 } else { 7 };
    tok_run::<D>(cx, "E-TOK Σ_juxt", sigma_juxt(D::EV), d, 4, ONLY_DEFAULT, &k, Some(&c12_extra::<D>), 2400);
    // E-COMP with juxtaposition as the joiner: A B, A(B), (A)B, and juxtapositions next to ^ and !
    let j = |a: &str, b: &str, c: &str| (a.to_string(), b.to_string(), c.to_string());
    let mut joiners = vec![j("", "", ""), j("", "(", ")"), j("(", ")", ""), j("(", ")(", ")"), j("", "^", ""), j("", "*", ""), j("", "/", "")];
    if D::EV.has_factorial() {
        joiners.push(j("", "!", ""));
        joiners.push(j("", "!(", ")"));
    }
    let mut a: Vec<String> = ["2", "3", "@", "+", "-", "^", "(", ")", "²", "abs("].iter().map(|s| s.to_string()).collect();
    if D::EV.has_factorial() {
        a.push("!".into());
    }
    if D::EV.has_point() {
        a.push("0.5".into());
    }
    crate::checks::ecomp::<D>(cx, a, &joiners, &[Kind::Value, Kind::MalformedOk, Kind::WellFormedErr]);
}

pub fn c12(cx: &RunCtx) {
    cx.assume("(i) value of the reference tree in which juxtaposition is an operator pushed without popping; (ii) every juxtaposition site found by the reference parser is rewritten as (A*(R)) from the recorded spans and must give the bit-identical outcome");
    c12_dom::<F64>(cx);
    c12_dom::<I64>(cx);
    c12_dom::<Dec>(cx);
    c12_dom::<Cpx>(cx);
    c12_dom::<Num>(cx);
    // every function name and alias — also called with no argument — as the left factor, the right partner and
    // in the middle of an implicit product (the per-name family), judged by the reference
    crate::fam::per_name_all(cx, &[Kind::Value, Kind::MalformedOk, Kind::WellFormedErr]);
    let d = if cx.tier == Tier::Quick { 4 } else { 5 };
    let k = [Kind::Value, Kind::MalformedOk, Kind::WellFormedErr];
    crate::checks::tok_rotating::<F64>(cx, d, &k);
    crate::checks::tok_rotating::<I64>(cx, d, &k);
    crate::checks::tok_rotating::<Dec>(cx, d, &k);
    crate::checks::tok_rotating::<Cpx>(cx, d, &k);
    crate::checks::tok_rotating::<Num>(cx, d, &k);
}

// ---------------------------------------------------------------- C13

fn aliases(f: Func) -> &'static [&'static str] {
    match f {
        Func::Sign => &["sgn", "sign", "signum"],
        Func::Med => &["med", "median"],
        Func::Trunc => &["trunc", "truncate"],
        Func::LambertW => &["w", "lambert_w"],
        Func::Asinh => &["asinh", "arsinh"],
        Func::Acosh => &["acosh", "arcosh"],
        Func::Atanh => &["atanh", "artanh"],
        _ => &[],
    }
}

fn to_sup(d: &str) -> String {
    d.chars().map(|c| SUPERSCRIPTS[(c as u8 - b'0') as usize]).collect()
}

/// the token following char position `end` allows a superscript / ^N exchange
fn follower_ok(lx: &Lexed, end: usize) -> bool {
    match lx.spans.iter().position(|s| s.0 == end) {
        None => end == lx.chars.len(),
        Some(i) => matches!(
            lx.toks[i],
            Tok::Plus | Tok::Minus | Tok::Star | Tok::Slash | Tok::Percent | Tok::Caret | Tok::Amp | Tok::Bar | Tok::Shl | Tok::Shr | Tok::Deg | Tok::Rad | Tok::RParen | Tok::RFloor | Tok::RCeil | Tok::Comma
        ),
    }
}

fn c13_extra<D: Dom>(ctx: &Ctx<D>, st: &mut Stats, rec: &Recorder, all_ws_positions: bool) {
    let chars: Vec<char> = ctx.s.chars().collect();
    let at = D::default_at();
    if matches!(ctx.base.out, Out::Panic(_) | Out::Budget(_)) {
        return;
    }
    // whitespace: at every boundary (one character, round robin or all 25), and at all boundaries at once
    for pos in 0..=chars.len() {
        if all_ws_positions {
            for ws in WHITE_SPACE {
                let v = splice(&chars, pos, pos, &ws.to_string());
                relate::<D>(ctx, "one White_Space character inserted", &v, &at, st, rec);
            }
        } else {
            let ws = WHITE_SPACE[(pos + chars.len()) % 25];
            let v = splice(&chars, pos, pos, &ws.to_string());
            relate::<D>(ctx, "one White_Space character inserted", &v, &at, st, rec);
        }
    }
    for ws in WHITE_SPACE {
        let mut v = String::new();
        v.push(ws);
        for c in &chars {
            v.push(*c);
            v.push(ws);
        }
        relate::<D>(ctx, "the same White_Space character inserted at every boundary", &v, &at, st, rec);
    }
    // aliases (token level, also for malformed inputs)
    for (i, t) in ctx.lx.toks.iter().enumerate() {
        let (a, b) = ctx.lx.spans[i];
        match t {
            Tok::Func(f) => {
                let cur = slice(&ctx.lx.chars, a, b);
                for alt in aliases(*f) {
                    if *alt != cur && func_names(D::EV).iter().any(|(n, _)| n == alt) {
                        let v = splice(&ctx.lx.chars, a, b, alt);
                        relate::<D>(ctx, "alias swapped for its synonym", &v, &at, st, rec);
                    }
                }
            }
            Tok::Pi => {
                let cur = slice(&ctx.lx.chars, a, b);
                let alt = if cur == "pi" { "π" } else { "pi" };
                let v = splice(&ctx.lx.chars, a, b, alt);
                relate::<D>(ctx, "pi / π swapped", &v, &at, st, rec);
            }
            _ => {}
        }
    }
    let tree = match ctx.parsed {
        Parsed::WellFormed(t) => t,
        _ => return,
    };
    st.nonvacuous += 1;
    let cs = &ctx.lx.chars;
    let lx = ctx.lx;
    let mut variants: Vec<(&'static str, String)> = Vec::new();
    walk(tree, &mut |n, parent| {
        let (a, b) = n.span;
        // redundant round brackets around any complete subexpression
        variants.push(("redundant ( ) around a subexpression", splice(cs, a, b, &format!("({})", slice(cs, a, b)))));
        // a prefix + before an operand of an explicit construct
        let is_operand = match parent.map(|p| &p.e) {
            Some(Expr::Bin(op, _, _)) => *op != BinOp::Impl,
            Some(Expr::Call(..)) | Some(Expr::Group(..)) | Some(Expr::Neg(_)) | Some(Expr::Pos(_)) => true,
            None => true,
            _ => false,
        };
        // a `+` inserted here is a prefix sign only if what precedes it cannot end an operand
        let prefix_position = match lx.spans.iter().position(|sp| sp.0 == a) {
            Some(0) => true,
            Some(i) => matches!(
                lx.toks[i - 1],
                Tok::Plus | Tok::Minus | Tok::Star | Tok::Slash | Tok::Percent | Tok::Caret | Tok::Amp | Tok::Bar | Tok::Shl | Tok::Shr | Tok::LParen | Tok::LFloor | Tok::LCeil | Tok::Comma
            ),
            None => false,
        };
        if is_operand && prefix_position {
            variants.push(("prefix + before an operand", splice(cs, a, a, "+")));
        }
        match &n.e {
            Expr::Group(GroupKind::Floor, x) if D::EV.has_floor_brackets() => {
                variants.push(("⌊x⌋ written floor(x)", splice(cs, a, b, &format!("floor({})", slice(cs, x.span.0, x.span.1)))));
            }
            Expr::Group(GroupKind::Ceil, x) if D::EV.has_floor_brackets() => {
                variants.push(("⌈x⌉ written ceil(x)", splice(cs, a, b, &format!("ceil({})", slice(cs, x.span.0, x.span.1)))));
            }
            Expr::Call(Func::Floor, args) if args.len() == 1 => {
                variants.push(("floor(x) written ⌊x⌋", splice(cs, a, b, &format!("⌊{}⌋", slice(cs, args[0].span.0, args[0].span.1)))));
            }
            Expr::Call(Func::Ceil, args) if args.len() == 1 => {
                variants.push(("ceil(x) written ⌈x⌉", splice(cs, a, b, &format!("⌈{}⌉", slice(cs, args[0].span.0, args[0].span.1)))));
            }
            Expr::Call(Func::Mod, args) if args.len() == 2 => {
                variants.push((
                    "mod(a,b) written ((a)%(b))",
                    splice(cs, a, b, &format!("(({})%({}))", slice(cs, args[0].span.0, args[0].span.1), slice(cs, args[1].span.0, args[1].span.1))),
                ));
            }
            Expr::Call(Func::Pow, args) if args.len() == 2 => {
                variants.push((
                    "pow(a,b) written ((a)^(b))",
                    splice(cs, a, b, &format!("(({})^({}))", slice(cs, args[0].span.0, args[0].span.1), slice(cs, args[1].span.0, args[1].span.1))),
                ));
            }
            Expr::Bin(BinOp::Pow, base, e) => {
                if let Expr::Lit { text, imag: false } = &e.e {
                    let digits_only = text.chars().all(|c| c.is_ascii_digit());
                    let base_ends_sup = base.span.1 > 0 && sup_digit(cs[base.span.1 - 1]).is_some();
                    if digits_only && !base_ends_sup && follower_ok(lx, e.span.1) {
                        variants.push(("^N written as a superscript run", splice(cs, base.span.1, e.span.1, &to_sup(text))));
                    }
                }
            }
            Expr::Sup(base, d) => {
                let base_ends_sup = base.span.1 > 0 && sup_digit(cs[base.span.1 - 1]).is_some();
                if !base_ends_sup && follower_ok(lx, b) {
                    variants.push(("superscript run written ^N", splice(cs, base.span.1, b, &format!("^{}", d))));
                }
            }
            _ => {}
        }
    });
    for (what, v) in variants {
        relate::<D>(ctx, what, &v, &at, st, rec);
    }
}

fn c13_dom<D: Dom>(cx: &RunCtx) {
    let k = [Kind::Relation];
    let quick = cx.tier == Tier::Quick;
    let f_quick = |c: &Ctx<D>, st: &mut Stats, rec: &Recorder| c13_extra::<D>(c, st, rec, false);
    let f_all = |c: &Ctx<D>, st: &mut Stats, rec: &Recorder| c13_extra::<D>(c, st, rec, true);
    let extra: Extra<D> = if quick { &f_quick } else { &f_all };
    tok_run::<D>(cx, "E-TOK Σ_class + rewrites", sigma_class(D::EV), if quick { 4 } else { 4 }, 9, ONLY_DEFAULT, &k, Some(extra), 3000);
    tok_run::<D>(cx, "E-TOK Σ_full + rewrites", sigma_full(D::EV), if quick { 2 } else { 3 }, 9, ONLY_DEFAULT, &k, Some(extra), 3000);
    // targeted alphabet for the spelling rewrites: every construct that has a second spelling
    let mut a: Vec<String> = ["2", "3", "9223372036854775808", "@", "+", "-", "*", "^", "(", ")", ",", "²", "³", "⁰", "mod(", "pow("].iter().map(|s| s.to_string()).collect();
    if D::EV.has_floor_brackets() {
        a.extend(["⌊", "⌋", "⌈", "⌉", "floor(", "ceil(", "0.5"].iter().map(|s| s.to_string()));
    }
    if D::EV.has_factorial() {
        a.push("!".into());
    }
    if D::EV == Ev::Cpx {
        a.retain(|x| x != "mod(");
    }
    tok_run::<D>(cx, "E-TOK Σ_spell + rewrites", a, if quick { 4 } else { 5 }, 9, ONLY_DEFAULT, &k, Some(extra), 3000);
}

/// Whitespace in bulk: runs of 2..5000 copies of each White_Space character (the multi-byte ones push a short input
/// past any byte-length limit long before a character-length limit), at the start, inside and at the end of short
/// well-formed and malformed inputs, and all 25 characters mixed. The outcome must be that of the bare input.
fn c13_ws_pumping<D: Dom>(cx: &RunCtx) {
    if !cx.wants(D::EV.name()) {
        return;
    }
    let mut st = Stats::default();
    let at = D::default_at();
    let bases: Vec<&str> = match D::EV {
        Ev::I64 => vec!["1+2", "min(3,@)", "2(3)", "-3!", "7%3<<2", "1+", "(1", "2²", "gcd(12,18)"],
        Ev::Cpx => vec!["1+2", "2i*i", "2(3)", "-3!", "pi", "1+", "(1", "2²", "sqrt(@)"],
        _ => vec!["1+2", "min(3,@)", "2(3)", "-3!", "pi", "1+", "(1", "2²", "⌊2.5⌋"],
    };
    let counts: &[usize] = if cx.tier == Tier::Quick { &[2, 3, 40, 85, 86, 127, 128, 129, 250, 1000] } else { &[2, 3, 10, 40, 64, 85, 86, 100, 127, 128, 129, 200, 250, 253, 256, 1000, 5000] };
    let mixed: String = WHITE_SPACE.iter().collect();
    for base in bases {
        let b = run::<D>(base, &at);
        if matches!(b.out, Out::Panic(_) | Out::Budget(_)) {
            continue;
        }
        let chars: Vec<char> = base.chars().collect();
        let mut variants: Vec<(String, String)> = Vec::new();
        for ws in WHITE_SPACE {
            for &n in counts {
                let run_: String = std::iter::repeat(ws).take(n).collect();
                variants.push((format!("{}{}", run_, base), format!("{} x U+{:04X} in front", n, ws as u32)));
                variants.push((format!("{}{}", base, run_), format!("{} x U+{:04X} behind", n, ws as u32)));
                variants.push((splice(&chars, 1, 1, &run_), format!("{} x U+{:04X} after the first character", n, ws as u32)));
                // spread over every boundary
                let per = n / (chars.len() + 1) + 1;
                let piece: String = std::iter::repeat(ws).take(per).collect();
                let mut v = piece.clone();
                for c in &chars {
                    v.push(*c);
                    v.push_str(&piece);
                }
                variants.push((v, format!("{} x U+{:04X} at every boundary", per, ws as u32)));
            }
        }
        for k in [1usize, 4, 10, 40] {
            let m = mixed.repeat(k);
            variants.push((format!("{}{}", m, base), format!("all 25 White_Space characters x {} in front", k)));
            variants.push((splice(&chars, 1, 1, &m), format!("all 25 White_Space characters x {} after the first character", k)));
            variants.push((format!("{}{}", base, m), format!("all 25 White_Space characters x {} behind", k)));
        }
        for (v, what) in variants {
            let r = run::<D>(&v, &at);
            st.nodes += 1;
            st.transitions += 1;
            st.executions += 1;
            st.relations += 1;
            if r.out.ok().is_some() && b.out.ok().is_some() {
                st.relations_both_ok += 1;
            }
            if matches!(r.out, Out::Panic(_) | Out::Budget(_)) {
                st.bump("relation-skipped:panic-or-budget", 1);
                continue;
            }
            if !same_out::<D>(&b.out, &r.out) {
                let mut viol = make_violation::<D>(
                    "E-FAM whitespace in bulk",
                    &v,
                    &at,
                    Outcome1 {
                        kind: Kind::Relation,
                        expected: format!("{} — the outcome of {:?} ({})", show_out::<D>(&b.out), base, what),
                        observed: show_out::<D>(&r.out),
                    },
                    true,
                );
                viol.detail = json!({"original": base, "rewrite": what});
                cx.rec.add(viol);
            }
        }
    }
    cx.add_run(&st, json!({"engine": "E-FAM whitespace in bulk (runs of each White_Space character, mixed runs)", "evaluator": D::EV.name(), "stats": st.to_json()}));
}

pub fn c13(cx: &RunCtx) {
    c13_ws_pumping::<F64>(cx);
    c13_ws_pumping::<I64>(cx);
    c13_ws_pumping::<Dec>(cx);
    c13_ws_pumping::<Cpx>(cx);
    c13_ws_pumping::<Num>(cx);
    cx.assume("metamorphic: both sides are real runs through the public API; no reference value is involved (the reference parser only supplies rewrite sites and their side conditions)");
    c13_dom::<F64>(cx);
    c13_dom::<I64>(cx);
    c13_dom::<Dec>(cx);
    c13_dom::<Cpx>(cx);
    c13_dom::<Num>(cx);
}

// ---------------------------------------------------------------- C14

fn c14_dom<D: Dom>(cx: &RunCtx) {
    if !cx.wants(D::EV.name()) {
        return;
    }
    // (i) "@" alone returns the placeholder bit-identically / same variant / same scale
    let mut st = Stats::default();
    for p in D::pool_full() {
        for s in ["@", "(@)", "+@", " @ ", "((@))"] {
            let r = run::<D>(s, &p);
            st.nodes += 1;
            st.transitions += 1;
            st.executions += 1;
            st.compared += 1;
            let ok = match &r.out {
                Out::Ok(v) => D::same(v, &p),
                _ => false,
            };
            if !ok {
                cx.rec.add(make_violation::<D>(
                    "E-AT identity",
                    s,
                    &p,
                    Outcome1 {
                        kind: Kind::Value,
                        expected: format!("Ok({}) — the placeholder itself, bit for bit", D::show(&p)),
                        observed: show_out::<D>(&r.out),
                    },
                    true,
                ));
            }
        }
    }
    st.samples.push(json!({"input": "@", "placeholders": D::pool_full().iter().map(|p| D::show(p)).collect::<Vec<_>>()}));
    cx.add_run(&st, json!({"engine": "E-AT identity", "evaluator": D::EV.name(), "stats": st.to_json()}));
    // (ii) + (iii): every operator / juxtaposition string with the placeholder pool bound in the reference
    let k = [Kind::Value, Kind::MalformedOk, Kind::WellFormedErr, Kind::MustErrOk];
    let quick = cx.tier == Tier::Quick;
    let mut a = sigma_ops(D::EV);
    a.retain(|x| x != "5");
    a.push("abs(".into());
    a.push("pow(".into());
    a.push(",".into());
    // (iv) "eval(E, p) equals the evaluation of E with each `@` read as a constant of value p": every
    // well-formed explored string with `@` (well-formed, so the hole is not next to a juxtaposition partner),
    // every pool value that a literal denotes exactly — outcome with the placeholder vs outcome with the
    // bracketed literal written in its place, bit for bit / same variant / same scale
    let subst = |c: &Ctx<D>, st: &mut Stats, rec: &Recorder| {
        if !c.s.contains('@') || !matches!(c.parsed, Parsed::WellFormed(_)) {
            return;
        }
        for p in D::pool_critical() {
            let lit = match D::literal(&p) {
                Some(l) => l,
                None => continue,
            };
            // the literal must read back as exactly p (that it does is C19's business, not this check's)
            match run::<D>(&lit, &D::default_at()).out.ok() {
                Some(v) if D::same(v, &p) => {}
                _ => {
                    st.bump("literal-does-not-read-back", 1);
                    continue;
                }
            }
            let variant = c.s.replace('@', &lit);
            if variant.chars().count() > 256 {
                continue;
            }
            let with_at = run::<D>(c.s, &p);
            let with_lit = run::<D>(&variant, &D::default_at());
            st.executions += 2;
            st.relations += 1;
            let agree = match (&with_at.out, &with_lit.out) {
                (Out::Ok(a), Out::Ok(b)) => {
                    st.relations_both_ok += 1;
                    D::same(a, b)
                }
                (Out::Err, Out::Err) => true,
                (Out::Panic(_), _) | (_, Out::Panic(_)) | (Out::Budget(_), _) | (_, Out::Budget(_)) => true,
                _ => false,
            };
            if !agree {
                rec.add(make_violation::<D>(
                    "E-AT substitution",
                    c.s,
                    &p,
                    Outcome1 {
                        kind: Kind::Relation,
                        expected: format!("{} — the outcome of {:?} (each @ written as the literal of the placeholder)", show_out::<D>(&with_lit.out), variant),
                        observed: show_out::<D>(&with_at.out),
                    },
                    true,
                ));
            }
        }
    };
    tok_run::<D>(cx, "E-TOK Σ_ops∪fn x placeholder pool", a, if quick { 5 } else { 6 }, 4, if quick { 3 } else { 4 }, &k, Some(&subst), 2400);
    // the same two oracles (reference with @ bound, literal substitution) around every function name in turn
    crate::checks::tok_rotating_with::<D>(cx, if quick { 3 } else { 4 }, &k, Some(&subst), true);
}

pub fn c14(cx: &RunCtx) {
    cx.assume("the reference evaluates the tree with `@` bound directly to the placeholder; full pool up to the shallow depth, 4-value pool beyond");
    c14_dom::<F64>(cx);
    c14_dom::<I64>(cx);
    c14_dom::<Dec>(cx);
    c14_dom::<Cpx>(cx);
    c14_dom::<Num>(cx);
}

// ---------------------------------------------------------------- C20

fn c20_dom<D: Dom>(cx: &RunCtx) {
    if !cx.wants(D::EV.name()) {
        return;
    }
    let quick = cx.tier == Tier::Quick;
    let contexts: Mutex<Vec<String>> = Mutex::new(Vec::new());
    let subs: Mutex<Vec<String>> = Mutex::new(Vec::new());
    let sub_depth = 3;
    let collect = |c: &Ctx<D>, _st: &mut Stats, _rec: &Recorder| {
        if let Parsed::WellFormed(_) = c.parsed {
            if c.s.matches('@').count() == 1 {
                contexts.lock().unwrap().push(c.s.to_string());
            }
            if c.depth <= sub_depth && c.base.out.ok().is_some() {
                subs.lock().unwrap().push(c.s.to_string());
            }
        }
    };
    let none: [Kind; 0] = [];
    let mut alpha = sigma_juxt(D::EV);
    if D::EV != Ev::Cpx {
        alpha.push("min(".into());
    }
    if D::EV.has_percent() {
        alpha.push("%".into());
    }
    tok_run::<D>(cx, "E-TOK Σ_juxt (collecting contexts and subexpressions)", alpha, if quick { 5 } else { 6 }, 9, ONLY_DEFAULT, &none, Some(&collect), 2400);
    let mut contexts = contexts.into_inner().unwrap();
    let mut subs = subs.into_inner().unwrap();
    // structured contexts: the hole in every argument position of every function, operator and
    // postfix mark of the evaluator, next to constants (finite family, independent of the depth bound)
    // (powers of ten and of two next to the small constants: an operation that recognises a *literal* special operand —
    // log to the base 10, pow with the exponent 2 — must treat a computed one the same way)
    let consts: Vec<&str> = if D::EV.has_point() {
        vec!["2", "3", "64", "125", "0.5", "10", "(-0)", "7", "0", "1", "8", "100", "1000", "1000000", "1024", "1000000000000", "0.001"]
    } else {
        vec!["2", "3", "64", "125", "10", "(-1)", "7", "0", "1", "8", "100", "1000", "1000000", "1024", "1000000000000", "1000000000000000000"]
    };
    let mut seen: Vec<&str> = Vec::new();
    for (name, f) in func_names(D::EV) {
        if seen.contains(name) {
            continue;
        }
        seen.push(name);
        match f.arity() {
            Arity::Fixed(1) => contexts.push(format!("{}(@)", name)),
            Arity::Fixed(_) => {
                for c in &consts {
                    contexts.push(format!("{}(@,{})", name, c));
                    contexts.push(format!("{}({},@)", name, c));
                }
            }
            _ => {
                contexts.push(format!("{}(@)", name));
                for c in &consts {
                    contexts.push(format!("{}(@,{})", name, c));
                    contexts.push(format!("{}({},@,{})", name, c, c));
                }
            }
        }
    }
    let mut binops = vec!["+", "-", "*", "/", "^"];
    if D::EV.has_percent() {
        binops.push("%");
    }
    if D::EV.has_bitops() {
        binops.extend(["&", "|", "<<", ">>"]);
    }
    for o in binops {
        for c in &consts {
            contexts.push(format!("@{}{}", o, c));
            contexts.push(format!("{}{}@", c, o));
        }
    }
    for post in ["!", "°", "rad", "²", "³"] {
        let ok = match post {
            "!" => D::EV.has_factorial(),
            "°" | "rad" => D::EV.has_deg_rad(),
            _ => true,
        };
        if ok {
            contexts.push(format!("@{}", post));
            contexts.push(format!("-@{}", post));
        }
    }
    if D::EV.has_floor_brackets() {
        contexts.push("⌊@⌋".into());
        contexts.push("⌈@⌉".into());
    }
    // compound subexpressions worth small whole values (a literal and a compound of the same value
    // must be indistinguishable to every enclosing operation)
    for e in ["1+2", "6/2", "1+1", "4/2", "9-7", "2*2", "3-3", "0-2", "2^2", "8-5", "1+1+1"] {
        subs.push(e.to_string());
    }
    // … and worth the values a fast path may single out when they are written as literals: 10, 100, 1000, 8, 1, -1
    for e in ["5+5", "2*5", "20/2", "abs(0-10)", "99+1", "10*10", "999+1", "10^3", "2^3", "3-2", "1-2", "5-5", "1000*1000", "10^6"] {
        subs.push(e.to_string());
    }
    if D::EV.has_point() && D::EV != Ev::Dec {
        for e in ["e+0", "e*1", "pi+0", "1/2", "exp(1)"] {
            subs.push(e.to_string());
        }
    }
    if D::EV.has_point() {
        for e in ["1.5+1.5", "0.5*4", "2.5-0.5", "0.25+0.25", "1-1.5"] {
            subs.push(e.to_string());
        }
    }
    // compound subexpressions worth boundary values (a sub-result at the edge of the type must behave
    // exactly like the same value supplied through the placeholder), with and without a sign on top
    let extremes: Vec<&str> = match D::EV {
        Ev::I64 => vec!["-9223372036854775807-1", "9223372036854775806+1", "-9223372036854775807", "2^62", "0-2^62*2", "3037000500*3037000499"],
        Ev::Num => vec![
            "-9223372036854775807-1", "-(-9223372036854775807-1)", "9223372036854775806+1", "9223372036854775807+1", "-9223372036854775807", "2^62*2",
            "2^53+1", "0.0", "-0.0", "-(-0.0)", "1.0/0", "-(1.0/0)", "0.0/0", "4/2", "2.0", "4.0/2", "7/2", "0.5+0.5",
        ],
        Ev::F64 => vec!["1/0", "-(1/0)", "0/0", "-0", "-(-0)", "0*-1", "2^53+1", "2^1023*2", "2^-1074", "2^-1075"],
        Ev::Dec => vec!["1.10+0", "2.50*2", "1/3", "-0", "-(-0)", "0*-1", "0.0000000000000000000000000001/2", "7922816251426433759354395033*10", "1.0000000000000000000000000001-1"],
        Ev::Cpx => vec!["-1", "-(-1)", "i*i", "-i", "0-i", "1/0", "0/0", "(1+i)*(1-i)", "sqrt(-4)"],
    };
    for e in extremes {
        subs.push(e.to_string());
        subs.push(format!("-({})", e));
    }
    // one more operation on an operand at the edge (a function or operator that inspects its argument's
    // expression — "the whole part of an Integer quotient" — instead of its value shows on these)
    let edge: Vec<&str> = match D::EV {
        Ev::I64 | Ev::Num => vec!["9223372036854775807", "(-9223372036854775807-1)", "9007199254740993", "4611686018427387905", "3037000501"],
        Ev::F64 => vec!["9007199254740993", "(2^1023)", "(2^-1074)", "0.1"],
        Ev::Dec => vec!["7922816251426433759354395033", "0.0000000000000000000000000003", "1.10"],
        Ev::Cpx => vec!["(1+i)", "(2i)"],
    };
    for b in edge {
        for op in ["/2", "/3", "/7", "*2", "*3", "-1", "+1", "%7", "^2"] {
            if op.starts_with('%') && !D::EV.has_percent() {
                continue;
            }
            subs.push(format!("{}{}", b, op));
        }
    }
    contexts.sort();
    contexts.dedup();
    subs.sort();
    subs.dedup();
    let p0 = D::default_at();
    let t0 = std::time::Instant::now();
    let parts: Vec<Stats> = subs
        .par_iter()
        .map(|e| {
            let mut st = Stats::default();
            let re = run::<D>(e, &p0);
            let v = match re.out.ok() {
                Some(v) => v.clone(),
                None => return st,
            };
            let wrapped = format!("({})", e);
            for c in &contexts {
                let filled = c.replacen('@', &wrapped, 1);
                if filled.chars().count() > 256 {
                    continue;
                }
                let a = run::<D>(&filled, &p0);
                let b = run::<D>(c, &v);
                st.nodes += 1;
                st.transitions += 1;
                st.executions += 2;
                st.relations += 1;
                if a.out.ok().is_some() && b.out.ok().is_some() {
                    st.relations_both_ok += 1;
                }
                if matches!(a.out, Out::Panic(_) | Out::Budget(_)) || matches!(b.out, Out::Panic(_) | Out::Budget(_)) {
                    st.bump("relation-skipped:panic-or-budget", 1);
                    continue;
                }
                if !same_out::<D>(&a.out, &b.out) {
                    let mut viol = make_violation::<D>(
                        "E-PAIR context x subexpression",
                        &filled,
                        &p0,
                        Outcome1 {
                            kind: Kind::Relation,
                            expected: format!("{} — the outcome of {:?} with placeholder {} (= value of {:?})", show_out::<D>(&b.out), c, D::show(&v), e),
                            observed: show_out::<D>(&a.out),
                        },
                        true,
                    );
                    viol.detail = json!({"context": c, "subexpression": e, "value": D::enc(&v)});
                    cx.rec.add(viol);
                }
            }
            if st.samples.is_empty() && !contexts.is_empty() {
                st.samples.push(json!({"context": contexts[contexts.len() / 2], "subexpression": e, "value": D::show(&v)}));
            }
            st
        })
        .collect();
    let mut total = Stats::default();
    for p in &parts {
        total.merge(p);
    }
    eprintln!("[C20] {}: contexts {} subexpressions {} pairs {} ({:.1}s)", D::EV.name(), contexts.len(), subs.len(), total.relations, t0.elapsed().as_secs_f64());
    cx.add_run(
        &total,
        json!({"engine": "E-PAIR all (context, subexpression) pairs", "evaluator": D::EV.name(), "contexts": contexts.len(),
        "subexpressions": subs.len(), "wall_s": t0.elapsed().as_secs_f64(), "stats": total.to_json()}),
    );
}

pub fn c20(cx: &RunCtx) {
    cx.assume("metamorphic: eval(C[(E)], p0) vs eval(C[@], v) with v the value of E; contexts are the well-formed explored strings with exactly one `@` (which, being well-formed, is never adjacent to a juxtaposition partner)");
    c20_dom::<F64>(cx);
    c20_dom::<I64>(cx);
    c20_dom::<Dec>(cx);
    c20_dom::<Cpx>(cx);
    c20_dom::<Num>(cx);
}
