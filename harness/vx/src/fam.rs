//! E-FAM: finite, exhaustively enumerated structured families (the only road to 256 characters).
use crate::ctx::*;
use crate::dom::*;
use crate::etok::*;
use crate::report::*;
use crate::sut::*;
use rayon::prelude::*;
use refmodel::lex::lex;
use refmodel::parse::parse_lexed;
use refmodel::vocab::*;
use serde_json::json;

/// Runs every input of a finite list (with every placeholder of `pool` when it contains '@').
pub fn run_list<D: Dom>(cx: &RunCtx, engine: &str, inputs: &[String], pool: &[D::V], kinds: &[Kind]) {
    if !cx.wants(D::EV.name()) || inputs.is_empty() {
        return;
    }
    let t0 = std::time::Instant::now();
    let parts: Vec<Stats> = inputs
        .par_chunks(256)
        .map(|chunk| {
            let mut st = Stats::default();
            for s in chunk {
                let lx = lex(D::EV, s);
                let parsed = parse_lexed(D::EV, &lx);
                let uses_at = s.contains('@');
                let p: &[D::V] = if uses_at { pool } else { &pool[..1] };
                st.nodes += 1;
                st.transitions += 1;
                for at in p {
                    let run = run::<D>(s, at);
                    st.outcome_digest = st.outcome_digest.wrapping_add(digest_of::<D>(s, at, &run.out));
                    if let Some(o) = classify::<D>(&lx, &parsed, at, &run, &mut st) {
                        if kinds.contains(&o.kind) {
                            cx.rec.add(make_violation::<D>(engine, s, at, o, uses_at));
                        } else {
                            st.bump(&format!("other-kind:{}", o.kind.name()), 1);
                        }
                    }
                    if st.samples.is_empty() {
                        st.samples.push(json!({"evaluator": D::EV.name(), "input_chars": s.chars().count(),
                            "input_head": s.chars().take(40).collect::<String>(), "outcome": run.out.tag(), "steps": run.steps}));
                    }
                }
            }
            st
        })
        .collect();
    let mut total = Stats::default();
    for p in &parts {
        total.merge(p);
    }
    let desc = json!({"engine": engine, "evaluator": D::EV.name(), "inputs": inputs.len(),
        "longest_input_chars": inputs.iter().map(|s| s.chars().count()).max().unwrap_or(0),
        "placeholders": pool.len(), "wall_s": t0.elapsed().as_secs_f64(), "stats": total.to_json()});
    cx.add_run(&total, desc);
}

pub use refmodel::families::{agg_long, nested_slips, per_name, pumping};

fn pumping_dom<D: Dom>(cx: &RunCtx, kinds: &[Kind]) {
    let inputs = pumping(D::EV);
    run_list::<D>(cx, "E-FAM pumping", &inputs, &D::pool_full(), kinds);
    let inputs = agg_long(D::EV);
    run_list::<D>(cx, "E-FAM long aggregate lists x placeholder pool", &inputs, &D::pool_full(), kinds);
}

pub fn pumping_all(cx: &RunCtx, kinds: &[Kind]) {
    pumping_dom::<F64>(cx, kinds);
    pumping_dom::<I64>(cx, kinds);
    pumping_dom::<Dec>(cx, kinds);
    pumping_dom::<Cpx>(cx, kinds);
    pumping_dom::<Num>(cx, kinds);
}

fn per_name_dom<D: Dom>(cx: &RunCtx, kinds: &[Kind]) {
    let inputs = per_name(D::EV);
    run_list::<D>(cx, "E-FAM per-name + near-miss", &inputs, &D::pool_small(), kinds);
}

pub fn per_name_all(cx: &RunCtx, kinds: &[Kind]) {
    per_name_dom::<F64>(cx, kinds);
    per_name_dom::<I64>(cx, kinds);
    per_name_dom::<Dec>(cx, kinds);
    per_name_dom::<Cpx>(cx, kinds);
    per_name_dom::<Num>(cx, kinds);
}

pub use refmodel::families::critical;

fn critical_dom<D: Dom>(cx: &RunCtx, kinds: &[Kind]) {
    let inputs = critical(D::EV, true);
    run_list::<D>(cx, "E-FUNC every name x critical arguments (branch points, poles, range limits)", &inputs, &D::pool_critical(), kinds);
}

pub fn critical_all(cx: &RunCtx, kinds: &[Kind]) {
    critical_dom::<F64>(cx, kinds);
    critical_dom::<I64>(cx, kinds);
    critical_dom::<Dec>(cx, kinds);
    critical_dom::<Cpx>(cx, kinds);
    critical_dom::<Num>(cx, kinds);
}

fn nested_slips_dom<D: Dom>(cx: &RunCtx, kinds: &[Kind]) {
    let inputs = nested_slips(D::EV);
    run_list::<D>(cx, "E-FAM nested calls x argument-count / separator / closer slips", &inputs, &[D::default_at()], kinds);
}

pub fn nested_slips_all(cx: &RunCtx, kinds: &[Kind]) {
    nested_slips_dom::<F64>(cx, kinds);
    nested_slips_dom::<I64>(cx, kinds);
    nested_slips_dom::<Dec>(cx, kinds);
    nested_slips_dom::<Cpx>(cx, kinds);
    nested_slips_dom::<Num>(cx, kinds);
}

/// the code points next to (±1, ±2) every non-ASCII character that some evaluator accepts, and look-alikes
/// from the same Unicode blocks, none of which any evaluator accepts
pub fn foreign_neighbours() -> Vec<char> {
    let accepted: Vec<char> = "π°²³¹⁰⁴⁵⁶⁷⁸⁹⌊⌋⌈⌉".chars().chain(WHITE_SPACE.iter().copied()).collect();
    let mut out: Vec<char> = Vec::new();
    for c in "π°²³¹⁰⁴⁵⁶⁷⁸⁹⌊⌋⌈⌉".chars() {
        for d in [-2i32, -1, 1, 2] {
            if let Some(n) = char::from_u32((c as i32 + d) as u32) {
                out.push(n);
            }
        }
    }
    // look-alikes: superscript / subscript letters and signs, masculine / feminine ordinal, ring above, other pi's,
    // full-width digits and operators, other brackets, a combining mark, the replacement character, an astral digit
    out.extend("ⁱⁿ⁺⁻⁼⁽⁾₀₁₂₃₉ªº˚∘ϖΠ∏𝜋０１２＋－＊／（）［］⟦⟧⌜⌝\u{0301}\u{fffd}𝟐٣".chars());
    out.retain(|c| !accepted.contains(c) && !c.is_ascii());
    out.sort();
    out.dedup();
    out
}

/// every foreign neighbour inserted at every character position of every base string
pub fn foreign_insertions(bases: &[String]) -> Vec<String> {
    let fs = foreign_neighbours();
    let mut out = Vec::new();
    for b in bases {
        let cs: Vec<char> = b.chars().collect();
        for i in 0..=cs.len() {
            for f in &fs {
                let mut t: String = cs[..i].iter().collect();
                t.push(*f);
                t.extend(cs[i..].iter());
                out.push(t);
            }
        }
    }
    out
}

/// base strings for the foreign-character insertions: every sequence of up to three lexical fragments
pub fn lexical_bases(ev: Ev) -> Vec<String> {
    let mut f: Vec<&str> = vec!["2", "13", "@", "+", "-", "(", ")", ",", "²", "³", "¹⁰", "abs(", "pow(", "^"];
    if ev.has_point() {
        f.extend(["0.5", "."]);
    }
    if ev.has_consts() {
        f.extend(["pi", "π", "e"]);
    }
    if ev.has_factorial() {
        f.push("!");
    }
    if ev.has_deg_rad() {
        f.extend(["°", "rad"]);
    }
    if ev.has_floor_brackets() {
        f.extend(["⌊", "⌋", "⌈", "⌉"]);
    }
    if ev == Ev::Cpx {
        f.extend(["i", "3i"]);
    }
    if ev.has_bitops() {
        f.push("<<");
    }
    let mut out: Vec<String> = Vec::new();
    for a in &f {
        out.push(a.to_string());
        for b in &f {
            out.push(format!("{}{}", a, b));
            for c in &f {
                out.push(format!("{}{}{}", a, b, c));
            }
        }
    }
    out.sort();
    out.dedup();
    out
}

fn foreign_dom<D: Dom>(cx: &RunCtx, kinds: &[Kind]) {
    let inputs = foreign_insertions(&lexical_bases(D::EV));
    run_list::<D>(cx, "E-FAM foreign neighbour characters inserted at every position", &inputs, &[D::default_at()], kinds);
}

pub fn foreign_all(cx: &RunCtx, kinds: &[Kind]) {
    foreign_dom::<F64>(cx, kinds);
    foreign_dom::<I64>(cx, kinds);
    foreign_dom::<Dec>(cx, kinds);
    foreign_dom::<Cpx>(cx, kinds);
    foreign_dom::<Num>(cx, kinds);
}

/// Runs of adjacent prefix signs (refmodel::families::sign_runs): each sign is its own operation, `--x` is -(-x), so an
/// inner minus that overflows (or changes the variant, or the sign of a zero) must not be cancelled against the outer one.
pub fn sign_runs<D: Dom>(cx: &RunCtx, kinds: &[Kind]) {
    let max = if cx.tier == crate::Tier::Quick { 4 } else { 7 };
    let inputs = refmodel::families::sign_runs(D::EV, max);
    run_list::<D>(cx, "E-FAM runs of prefix signs x edge operands", &inputs, &D::pool_critical(), kinds);
}

fn big_integers_dom<D: Dom>(cx: &RunCtx, kinds: &[Kind]) {
    let inputs = refmodel::families::big_integers();
    run_list::<D>(cx, "E-FAM exact divisions, remainders and products of integers beyond 2^53", &inputs, &[D::default_at()], kinds);
}

pub fn big_integers_all(cx: &RunCtx, kinds: &[Kind]) {
    big_integers_dom::<F64>(cx, kinds);
    big_integers_dom::<I64>(cx, kinds);
    big_integers_dom::<Dec>(cx, kinds);
    big_integers_dom::<Cpx>(cx, kinds);
    big_integers_dom::<Num>(cx, kinds);
}

pub fn big_integers_one<D: Dom>(cx: &RunCtx, kinds: &[Kind]) {
    big_integers_dom::<D>(cx, kinds);
}

/// refmodel::families::idioms: multi-node idioms a fusing evaluator could compute through one library call
pub fn idioms<D: Dom>(cx: &RunCtx, kinds: &[Kind]) {
    let inputs = refmodel::families::idioms(D::EV);
    run_list::<D>(cx, "E-FAM multi-node idioms (hypot, fma, expm1, ln_1p, atan2, algebraic simplifications) x awkward operands", &inputs, &[D::default_at()], kinds);
}

fn special_integers_dom<D: Dom>(cx: &RunCtx, kinds: &[Kind]) {
    let inputs = refmodel::families::special_integers(D::EV);
    run_list::<D>(cx, "E-FAM every one-argument function x perfect squares, cubes, powers and their neighbours beyond 2^53", &inputs, &[D::default_at()], kinds);
}

pub fn special_integers_all(cx: &RunCtx, kinds: &[Kind]) {
    special_integers_dom::<F64>(cx, kinds);
    special_integers_dom::<I64>(cx, kinds);
    special_integers_dom::<Dec>(cx, kinds);
    special_integers_dom::<Cpx>(cx, kinds);
    special_integers_dom::<Num>(cx, kinds);
}

fn plausible_names_dom<D: Dom>(cx: &RunCtx, kinds: &[Kind]) {
    let inputs = refmodel::families::plausible_names(D::EV);
    run_list::<D>(cx, "E-FAM plausible names that the evaluator does not offer x calling shapes", &inputs, &[D::default_at()], kinds);
}

pub fn plausible_names_all(cx: &RunCtx, kinds: &[Kind]) {
    plausible_names_dom::<F64>(cx, kinds);
    plausible_names_dom::<I64>(cx, kinds);
    plausible_names_dom::<Dec>(cx, kinds);
    plausible_names_dom::<Cpx>(cx, kinds);
    plausible_names_dom::<Num>(cx, kinds);
}
