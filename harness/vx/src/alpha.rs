//! Alphabets of token fragments per evaluator.
use refmodel::vocab::*;

fn v(xs: &[&str]) -> Vec<String> {
    xs.iter().map(|s| s.to_string()).collect()
}

/// foreign fragments: tokens only other evaluators know, an unknown identifier, an invalid character
pub fn foreign(ev: Ev) -> Vec<String> {
    match ev {
        Ev::F64 => v(&["x", "#", "&", "gcd("]),
        Ev::I64 => v(&["x", "#", "pi", ".", "°", "⌊", "floor("]),
        Ev::Dec => v(&["x", "#", "°", "sin(", "&"]),
        Ev::Cpx => v(&["x", "#", "!", "%", "⌊", "min("]),
        Ev::Num => v(&["x", "#", "&", "gcd("]),
    }
}

/// one representative per parser-relevant class
pub fn sigma_class(ev: Ev) -> Vec<String> {
    let mut a: Vec<String> = Vec::new();
    a.push("2".into());
    if ev.has_point() {
        a.push("0.5".into());
    } else {
        a.push("3".into());
    }
    if ev == Ev::Cpx {
        a.push("3i".into());
        a.push("i".into());
    }
    a.push("@".into());
    if ev.has_consts() {
        a.push("pi".into());
    }
    a.extend(v(&["+", "-", "*", "/", "^"]));
    if ev.has_percent() {
        a.push("%".into());
    }
    if ev.has_factorial() {
        a.push("!".into());
    }
    if ev.has_bitops() {
        a.extend(v(&["&", "|", "<<"]));
    }
    if ev.has_deg_rad() {
        a.push("°".into());
    }
    a.extend(v(&["(", ")"]));
    if ev.has_floor_brackets() {
        a.extend(v(&["⌊", "⌋"]));
    }
    a.push(",".into());
    a.push("²".into());
    a.push("abs(".into());
    a.push("pow(".into());
    if ev != Ev::Cpx {
        a.push("min(".into());
        a.push("avg(".into());
    }
    let mut f = foreign(ev);
    f.truncate(3);
    a.extend(f);
    a
}

/// every token the evaluator's tokenizer can produce, plus the foreign set
pub fn sigma_full(ev: Ev) -> Vec<String> {
    let mut a: Vec<String> = Vec::new();
    a.push("2".into());
    if ev.has_point() {
        a.push("0.5".into());
        a.push(".".into());
    }
    if ev == Ev::Cpx {
        a.push("3i".into());
        a.push("i".into());
    }
    a.push("@".into());
    if ev.has_consts() {
        a.extend(v(&["pi", "π", "e"]));
    }
    a.extend(v(&["+", "-", "*", "/", "^"]));
    if ev.has_percent() {
        a.push("%".into());
    }
    if ev.has_factorial() {
        a.push("!".into());
    }
    if ev.has_bitops() {
        a.extend(v(&["&", "|", "<<", ">>", "<", ">"]));
    }
    if ev.has_deg_rad() {
        a.extend(v(&["°", "rad"]));
    }
    a.extend(v(&["(", ")"]));
    if ev.has_floor_brackets() {
        a.extend(v(&["⌊", "⌋", "⌈", "⌉"]));
    }
    a.push(",".into());
    a.push("²".into());
    a.push("¹⁰".into());
    let mut seen: Vec<&str> = Vec::new();
    for (n, _) in func_names(ev) {
        if !seen.contains(n) {
            seen.push(n);
            a.push(format!("{}(", n));
        }
    }
    a.extend(foreign(ev));
    a
}

/// operators and operands only (C04): distinct small primes so that groupings differ in value
pub fn sigma_ops(ev: Ev) -> Vec<String> {
    let mut a = v(&["2", "3", "5", "@"]);
    if ev.has_point() {
        a.push("0.5".into());
    }
    a.extend(v(&["+", "-", "*", "/", "^"]));
    if ev.has_percent() {
        a.push("%".into());
    }
    if ev.has_factorial() {
        a.push("!".into());
    }
    if ev.has_bitops() {
        a.extend(v(&["&", "|", "<<", ">>"]));
    }
    if ev.has_deg_rad() {
        a.extend(v(&["°", "rad"]));
    }
    a.extend(v(&["(", ")"]));
    if ev.has_floor_brackets() {
        a.extend(v(&["⌊", "⌋"]));
    }
    a.push("²".into());
    a
}

/// C12: the operator alphabet plus everything that can and cannot take part in a juxtaposition
pub fn sigma_juxt(ev: Ev) -> Vec<String> {
    let mut a = v(&["2", "3", "@"]);
    if ev.has_point() {
        a.push("0.5".into());
    }
    if ev.has_consts() {
        a.push("pi".into());
    }
    a.extend(v(&["+", "-", "*", "/", "^"]));
    if ev.has_factorial() {
        a.push("!".into());
    }
    if ev.has_deg_rad() {
        a.extend(v(&["°", "rad"]));
    }
    a.extend(v(&["(", ")"]));
    if ev.has_floor_brackets() {
        a.extend(v(&["⌊", "⌋", "⌈", "⌉"]));
    }
    a.push("²".into());
    a.push("abs(".into());
    a.push("pow(".into());
    a.push(",".into());
    a
}

/// C02: extreme literals and every looping construct
pub fn sigma_loops(ev: Ev) -> Vec<String> {
    let mut a = v(&["0", "1", "2", "21", "171", "1000000", "1000000000000000000", "99999999999999999999", "@"]);
    if ev.has_point() {
        a.extend(v(&["0.5", "1.2"]));
    }
    if ev.has_factorial() {
        a.push("!".into());
    }
    match ev {
        Ev::F64 | Ev::Num | Ev::Dec => a.extend(v(&["ilog(", "w(", "lambert_w(", "med("])),
        Ev::I64 => a.extend(v(&["gcd(", "lcm(", "med("])),
        Ev::Cpx => a.extend(v(&["pow(", "sqrt("])),
    }
    a.extend(v(&[",", ")", "-", "/", "^", "("]));
    a
}

/// character alphabet for E-CHR
pub fn sigma_chars(ev: Ev) -> Vec<String> {
    let mut cs: Vec<char> = Vec::new();
    for evx in ALL_EVS {
        for (n, _) in func_names(evx) {
            for c in n.chars() {
                if !cs.contains(&c) {
                    cs.push(c);
                }
            }
        }
    }
    for c in "pirade".chars() {
        if !cs.contains(&c) {
            cs.push(c);
        }
    }
    cs.sort();
    let mut a: Vec<String> = cs.iter().map(|c| c.to_string()).collect();
    for c in "019.+-*/^%!(),@&|<>#".chars() {
        let s = c.to_string();
        if !a.contains(&s) {
            a.push(s);
        }
    }
    for c in ['π', '°', '⌊', '⌋', '⌈', '⌉', '²', '¹', ' '] {
        a.push(c.to_string());
    }
    let _ = ev;
    a
}

/// sigma_class with the function representatives replaced by one given name, with and without its bracket
pub fn sigma_class_with(ev: Ev, name: &str) -> Vec<String> {
    let mut a = sigma_class(ev);
    a.retain(|t| !["abs(", "pow(", "min(", "avg("].contains(&t.as_str()));
    a.push(format!("{}(", name));
    a.push(name.to_string());
    a
}
