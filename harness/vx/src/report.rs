//! Violations, statistics, known findings, evidence and replay files.
use crate::dom::Kind;
use serde_json::{json, Value};
use std::collections::BTreeMap;
use std::sync::atomic::{AtomicU64, Ordering};
use std::sync::Mutex;

#[derive(Clone, Debug)]
pub struct Violation {
    pub kind: Kind,
    pub ev: String,
    pub input: String,
    /// lossless placeholder encoding ("" when the input has no placeholder dependence recorded)
    pub at_enc: String,
    pub at_show: String,
    pub at_rust: String,
    pub expected: String,
    pub observed: String,
    pub engine: String,
    /// machine-assigned family tag (argument condition), used by known findings
    pub family: Option<String>,
    pub detail: Value,
}

impl Violation {
    pub fn sort_key(&self) -> (usize, String, String) {
        (self.input.chars().count(), self.input.clone(), self.at_enc.clone())
    }
}

pub struct Recorder {
    pub keep: usize,
    pub list: Mutex<Vec<Violation>>,
    pub counts: Mutex<BTreeMap<String, u64>>,
    pub total: AtomicU64,
    /// open findings of the property being checked: matched at insertion so that known instances
    /// can never crowd an unlisted violation out of the kept list
    pub known: Vec<Known>,
    pub prop: String,
    /// id -> (instances, first example)
    pub known_hits: Mutex<BTreeMap<String, (u64, String)>>,
}

impl Recorder {
    pub fn new(keep: usize, prop: &str, known: Vec<Known>) -> Self {
        Recorder {
            keep,
            list: Mutex::new(Vec::new()),
            counts: Mutex::new(BTreeMap::new()),
            total: AtomicU64::new(0),
            known,
            prop: prop.to_string(),
            known_hits: Mutex::new(BTreeMap::new()),
        }
    }
    pub fn add(&self, v: Violation) {
        self.total.fetch_add(1, Ordering::Relaxed);
        {
            let mut c = self.counts.lock().unwrap();
            *c.entry(format!("{}/{}", v.ev, v.kind.name())).or_insert(0) += 1;
        }
        if let Some(k) = match_known(&self.known, &self.prop, &v) {
            let mut h = self.known_hits.lock().unwrap();
            let e = h.entry(k.id.clone()).or_insert((0, format!("{:?} placeholder {}", v.input, v.at_show)));
            e.0 += 1;
            return;
        }
        let mut l = self.list.lock().unwrap();
        if l.len() < self.keep * 4 {
            l.push(v);
        } else {
            // keep the shortest ones: replace the longest kept entry if this one is shorter
            let k = v.sort_key();
            if let Some((i, _)) = l
                .iter()
                .enumerate()
                .max_by(|a, b| a.1.sort_key().cmp(&b.1.sort_key()))
            {
                if l[i].sort_key() > k {
                    l[i] = v;
                }
            }
        }
    }
    pub fn total(&self) -> u64 {
        self.total.load(Ordering::Relaxed)
    }
}

/// Coverage counters of one engine run (merged across workers).
#[derive(Clone, Debug, Default)]
pub struct Stats {
    pub nodes: u64,
    pub transitions: u64,
    pub executions: u64,
    pub compared: u64,
    pub ok: u64,
    pub err: u64,
    pub panics: u64,
    pub budgets: u64,
    pub unspecified: u64,
    pub skipped_value: u64,
    pub closed: u64,
    pub relations: u64,
    pub relations_both_ok: u64,
    pub nonvacuous: u64,
    pub max_steps: u64,
    /// largest (allocations during one call) / (alloc_bound of its input), in 1/1000
    pub max_alloc_permille: u64,
    pub max_alloc_bytes: u64,
    pub capped: bool,
    pub outcome_digest: u64,
    pub samples: Vec<Value>,
    pub extra: BTreeMap<String, u64>,
}

impl Stats {
    pub fn merge(&mut self, o: &Stats) {
        self.nodes += o.nodes;
        self.transitions += o.transitions;
        self.executions += o.executions;
        self.compared += o.compared;
        self.ok += o.ok;
        self.err += o.err;
        self.panics += o.panics;
        self.budgets += o.budgets;
        self.unspecified += o.unspecified;
        self.skipped_value += o.skipped_value;
        self.closed += o.closed;
        self.relations += o.relations;
        self.relations_both_ok += o.relations_both_ok;
        self.nonvacuous += o.nonvacuous;
        self.max_steps = self.max_steps.max(o.max_steps);
        self.max_alloc_permille = self.max_alloc_permille.max(o.max_alloc_permille);
        self.max_alloc_bytes = self.max_alloc_bytes.max(o.max_alloc_bytes);
        self.capped |= o.capped;
        self.outcome_digest = self.outcome_digest.wrapping_add(o.outcome_digest);
        for s in &o.samples {
            if self.samples.len() < 12 {
                self.samples.push(s.clone());
            }
        }
        for (k, v) in &o.extra {
            *self.extra.entry(k.clone()).or_insert(0) += v;
        }
    }
    pub fn bump(&mut self, k: &str, n: u64) {
        *self.extra.entry(k.to_string()).or_insert(0) += n;
    }
    pub fn to_json(&self) -> Value {
        json!({
            "nodes": self.nodes, "transitions": self.transitions, "executions": self.executions,
            "compared_with_reference": self.compared, "ok": self.ok, "err": self.err,
            "panics": self.panics, "budget_exceeded": self.budgets, "unspecified": self.unspecified,
            "value_not_compared": self.skipped_value, "closed_by_pruning": self.closed,
            "relation_instances": self.relations, "relation_instances_both_ok": self.relations_both_ok,
            "non_vacuity_counter": self.nonvacuous, "max_steps_seen": self.max_steps, "max_alloc_bytes_in_one_call": self.max_alloc_bytes, "max_alloc_permille_of_bound": self.max_alloc_permille,
            "cap_hit": self.capped, "outcome_digest": format!("{:016x}", self.outcome_digest),
            "extra": self.extra,
        })
    }
}

pub fn fnv(s: &[u8]) -> u64 {
    let mut h: u64 = 0xcbf29ce484222325;
    for b in s {
        h ^= *b as u64;
        h = h.wrapping_mul(0x100000001b3);
    }
    h
}

// ------------------------------------------------------------------ known findings

#[derive(Clone, Debug)]
pub struct Known {
    pub id: String,
    pub property: String,
    pub evaluator: Option<String>,
    pub family: Option<String>,
    pub input: Option<String>,
    pub at: Option<String>,
    pub what: String,
}

pub fn load_known(path: &str) -> Vec<Known> {
    let txt = match std::fs::read_to_string(path) {
        Ok(t) => t,
        Err(_) => return vec![],
    };
    let v: Value = serde_json::from_str(&txt).expect("known_findings.json must be valid JSON");
    let mut out = vec![];
    if let Some(a) = v.get("findings").and_then(|f| f.as_array()) {
        for f in a {
            let s = |k: &str| f.get(k).and_then(|x| x.as_str()).map(|x| x.to_string());
            let m = f.get("match").cloned().unwrap_or(json!({}));
            let ms = |k: &str| m.get(k).and_then(|x| x.as_str()).map(|x| x.to_string());
            out.push(Known {
                id: s("id").unwrap_or_default(),
                property: s("property").unwrap_or_default(),
                evaluator: s("evaluator"),
                family: ms("family"),
                input: ms("input"),
                at: ms("placeholder"),
                what: s("what").unwrap_or_default(),
            });
        }
    }
    out
}

pub fn match_known<'a>(known: &'a [Known], prop: &str, v: &Violation) -> Option<&'a Known> {
    known.iter().find(|k| {
        if k.property != prop {
            return false;
        }
        if let Some(e) = &k.evaluator {
            if *e != v.ev {
                return false;
            }
        }
        if k.family.is_none() && k.input.is_none() {
            return false;
        }
        if let Some(f) = &k.family {
            if v.family.as_deref() != Some(f.as_str()) {
                return false;
            }
        }
        if let Some(i) = &k.input {
            if *i != v.input {
                return false;
            }
        }
        if let Some(a) = &k.at {
            if *a != v.at_enc {
                return false;
            }
        }
        true
    })
}

// ------------------------------------------------------------------ replay files

pub fn replay_json(prop: &str, profile: &str, v: &Violation) -> Value {
    let fn_name = match v.ev.as_str() {
        "f64" => "eval_f64",
        "i64" => "eval_i64",
        "decimal" => "eval_decimal",
        "complex" => "eval_complex",
        _ => "eval_number",
    };
    let test = format!(
        "#[test]\nfn replay_{}() {{\n    // expected: {}\n    // observed: {}\n    let r = std::panic::catch_unwind(|| string_calculator::{}({:?}.to_string(), {}));\n    println!(\"{{:?}}\", r.as_ref().map(|x| x.as_ref().map_err(|e| e.to_string())));\n    // {}\n}}\n",
        prop.to_lowercase(),
        v.expected.replace('\n', " "),
        v.observed.replace('\n', " "),
        fn_name,
        v.input,
        if v.at_rust.is_empty() { "Default::default()".to_string() } else { v.at_rust.clone() },
        "compare the printed outcome with the expectation above"
    );
    json!({
        "property": prop,
        "kind": v.kind.name(),
        "engine": v.engine,
        "evaluator": v.ev,
        "input": v.input,
        "input_escaped": v.input.escape_unicode().to_string(),
        "placeholder": v.at_enc,
        "placeholder_shown": v.at_show,
        "profile": profile,
        "expected": v.expected,
        "observed": v.observed,
        "family": v.family,
        "detail": v.detail,
        "plain_test": test,
    })
}
