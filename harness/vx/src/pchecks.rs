//! C16: evaluation is a pure function of (expression, placeholder).
//! E-HIST: every call history of bounded depth against isolated first-time results (fresh processes).
//! E-SCHED: real OS threads under a cooperative baton scheduler driven from the verif_hooks tick points,
//!          deviation(preemption)-bounded depth-first exploration of the schedules.
use crate::ctx::*;
use crate::dom::*;
use crate::etok::Ctx;
use crate::report::*;
use crate::sut::*;
use rayon::prelude::*;
use serde_json::json;
use std::cell::Cell;
use std::sync::{Arc, Condvar, Mutex};
use std::time::{Duration, Instant};

#[derive(Clone, Debug)]
pub struct Call {
    pub ev: &'static str,
    pub expr: String,
    pub at: String,
}

fn c(ev: &'static str, expr: &str, at: &str) -> Call {
    Call {
        ev,
        expr: expr.to_string(),
        at: at.to_string(),
    }
}

/// The alphabet of calls: built so that calls are forced to collide in any state a change could introduce.
pub fn alphabet() -> Vec<Call> {
    let f = |v: f64| F64::enc(&v);
    let cp = |a: f64, b: f64| Cpx::enc(&num_complex::Complex::new(a, b));
    let d = |s: &str| Dec::enc(&s.parse().unwrap());
    // per evaluator: the same expression with two placeholders, every looping / scratch-using construct with
    // two different arguments, and a failure at every stage (tokenizer, parser, evaluator top level,
    // a later argument of an aggregate)
    let v = vec![
        c("f64", "@+1", &f(1.0)),
        c("f64", "@+1", &f(2.0)),
        c("f64", "med(30,10,20)", &f(0.0)),
        c("f64", "med(90,70,80,60)", &f(0.0)),
        c("f64", "med(70,w(-1))", &f(0.0)),
        c("f64", "5!+w(1)", &f(0.0)),
        c("f64", "6!+w(2)", &f(0.0)),
        c("f64", "2+", &f(0.0)),
        c("f64", "1.2.3", &f(0.0)),
        c("i64", "@+1", "1"),
        c("i64", "@+1", "2"),
        c("i64", "med(30,10,20)", "0"),
        c("i64", "med(70,1/0)", "0"),
        c("i64", "gcd(12,18,24)+5!", "0"),
        c("i64", "gcd(35,49)+6!", "0"),
        c("i64", "1/0", "0"),
        c("i64", "2+", "0"),
        c("decimal", "@+1", &d("1")),
        c("decimal", "@+1", &d("2")),
        c("decimal", "med(30,10,20)", &d("0")),
        c("decimal", "med(70,1/0)", &d("0")),
        c("decimal", "0.5!+5!", &d("0")),
        c("decimal", "1.5!+6!", &d("0")),
        c("decimal", "1/0", &d("0")),
        c("decimal", "2+", &d("0")),
        c("complex", "@+1", &cp(1.0, 0.0)),
        c("complex", "@+1", &cp(0.0, 2.0)),
        c("complex", "sqrt(3+4i)", &cp(0.0, 0.0)),
        c("complex", "(1+i)^2", &cp(0.0, 0.0)),
        c("complex", "2+", &cp(0.0, 0.0)),
        c("complex", "1.2.3", &cp(0.0, 0.0)),
        c("number", "@+1", "I1"),
        c("number", "@+1", "F4004000000000000"),
        c("number", "med(30,10,20)", "I0"),
        c("number", "med(70,w(-1))", "I0"),
        c("number", "5!+2^0.5", "I0"),
        c("number", "6!+w(2)", "I0"),
        c("number", "1%0", "I0"),
        c("number", "2+", "I0"),
        // failures that leave the tokenizer / parser in the middle of something (open brackets, a pending
        // operator, an argument list), inputs that such left-overs would turn from Err into Ok, and a
        // well-formed bracketed expression
        c("f64", "((2+", &f(0.0)),
        c("f64", "1)", &f(0.0)),
        c("f64", "pow(2,", &f(0.0)),
        c("f64", "(1+2)*3", &f(0.0)),
        c("i64", "((2+", "0"),
        c("i64", "1)", "0"),
        c("i64", "(1+2)*3", "0"),
        // the same function argument as in another evaluator's calls (a memo shared between evaluators)
        // a small and a large argument of the same looping function (a table or memo sized by the first call)
        c("f64", "3!", &f(0.0)),
        c("f64", "25!", &f(0.0)),
        c("number", "3!", "I0"),
        c("number", "25!", "I0"),
        c("decimal", "3!", &d("0")),
        c("decimal", "25!", &d("0")),
        // the same expression with placeholders that compare equal but are not the same value (+0.0 / -0.0)
        c("f64", "1/@", &f(0.0)),
        c("f64", "1/@", &f(-0.0)),
        c("number", "1/@", "F0000000000000000"),
        c("number", "1/@", "F8000000000000000"),
        // superscript runs (all five tokenizers share one helper for them)
        c("f64", "2¹⁰", &f(0.0)),
        c("i64", "3²+@³", "2"),
        c("decimal", "2¹⁰", &d("0")),
        c("complex", "(1+i)¹⁰", &cp(0.0, 0.0)),
        c("number", "7²³", "I0"),
        // (bare calls: inside a sum with 6! a difference in the last place of w would be absorbed)
        c("decimal", "w(2)", &d("0")),
        c("decimal", "w(10)", &d("0")),
        c("number", "w(2)", "I0"),
        c("number", "w(10)", "I0"),
        c("f64", "w(2)", &f(0.0)),
        c("f64", "w(10)", &f(0.0)),
        c("decimal", "((2+", &d("0")),
        c("decimal", "1)", &d("0")),
        c("decimal", "(1+2)*3", &d("0")),
        c("complex", "((2+", &cp(0.0, 0.0)),
        c("complex", "1)", &cp(0.0, 0.0)),
        c("complex", "(1+2)*3", &cp(0.0, 0.0)),
        c("number", "((2+", "I0"),
        c("number", "1)", "I0"),
        c("number", "min(2,", "I0"),
        c("number", "(1+2)*3", "I0"),
    ];
    // inputs far beyond 256 characters, succeeding and failing (buffers that are reused or resized between calls)
    // (one long token each: the parsers clone the accumulated left operand per operator, so a chain of 2 600
    // additions would cost seconds per call)
    let long_ok = format!("{}1", "0".repeat(5000));
    let long_bad = format!("{}#", "0".repeat(5000));
    let long_ws = format!("1{}+1", " ".repeat(5000));
    let mut v = v;
    // deep nesting (a nesting or recursion counter that is shared between threads or not reset on an error path)
    let deep = format!("{}1", "-".repeat(150));
    for (ev, at) in [("f64", f(0.0)), ("i64", "0".to_string()), ("decimal", d("0")), ("complex", cp(0.0, 0.0)), ("number", "I0".to_string())] {
        v.push(c(ev, &long_ok, &at));
        v.push(c(ev, &long_bad, &at));
        v.push(c(ev, &long_ws, &at));
        v.push(c(ev, &deep, &at));
    }
    v
}

fn exec_dom<D: Dom>(expr: &str, at: &str) -> String {
    let p = D::dec(at).expect("placeholder encoding");
    let r = run::<D>(expr, &p);
    let out = match &r.out {
        Out::Ok(v) => format!("ok:{}", D::enc(v)),
        Out::Err => "err".into(),
        Out::Panic(m) => format!("panic:{}", m),
        Out::Budget(n) => format!("budget:{}", n),
    };
    // the number of counted steps is part of the observation: a call that takes a different number
    // of steps after some history betrays state kept between calls even when the value is the same
    format!("{} steps={}", out, r.steps)
}

pub fn exec(call: &Call) -> String {
    match call.ev {
        "f64" => exec_dom::<F64>(&call.expr, &call.at),
        "i64" => exec_dom::<I64>(&call.expr, &call.at),
        "decimal" => exec_dom::<Dec>(&call.expr, &call.at),
        "complex" => exec_dom::<Cpx>(&call.expr, &call.at),
        _ => exec_dom::<Num>(&call.expr, &call.at),
    }
}

fn call_index(call: &Call) -> usize {
    alphabet().iter().position(|c| c.ev == call.ev && c.expr == call.expr && c.at == call.at).unwrap_or(0)
}

/// `vx replay` of a recorded history or schedule; returns true when the violation is still there
pub fn replay_detail(detail: &serde_json::Value) -> Option<bool> {
    let a = alphabet();
    if let Some(h) = detail.get("history").and_then(|h| h.as_array()) {
        let idx: Vec<usize> = h.iter().filter_map(|x| x.as_u64().map(|v| v as usize)).collect();
        let got = fresh(&idx).ok()?;
        let mut bad = false;
        for (pos, i) in idx.iter().enumerate() {
            let iso = fresh(&[*i]).ok()?[0].clone();
            println!("call #{} {}: in this history {} / isolated {}", pos + 1, show_call(&a[*i]), got[pos], iso);
            if got[pos] != iso {
                bad = true;
            }
        }
        return Some(bad);
    }
    if let Some(h) = detail.get("history_calls").and_then(|h| h.as_array()) {
        let calls: Vec<Call> = h.iter().filter_map(|x| x.as_str().and_then(decode_call)).collect();
        let got = fresh_calls(&calls).ok()?;
        let mut bad = false;
        for (pos, c) in calls.iter().enumerate() {
            let iso = fresh_calls(std::slice::from_ref(c)).ok()?[0].clone();
            println!("call #{} {}: in this history {} / isolated {}", pos + 1, show_call(c), got[pos], iso);
            if got[pos] != iso {
                bad = true;
            }
        }
        return Some(bad);
    }
    if let (Some(tc), Some(sc)) = (detail.get("thread_calls").and_then(|x| x.as_array()), detail.get("schedule").and_then(|x| x.as_array())) {
        let threads: Vec<Vec<Call>> = tc
            .iter()
            .map(|t| t.as_array().unwrap().iter().map(|i| a[i.as_u64().unwrap() as usize].clone()).collect())
            .collect();
        let schedule: Vec<usize> = sc.iter().map(|x| x.as_u64().unwrap() as usize).collect();
        let iso: Vec<Vec<String>> = threads.iter().map(|cs| cs.iter().map(exec).collect()).collect();
        let x1 = run_schedule(&threads, &schedule);
        let x2 = run_schedule(&threads, &schedule);
        if x1.outcomes != x2.outcomes || x1.diverged || x2.diverged {
            eprintln!("replay of the schedule is not deterministic: {:?} vs {:?}", x1.outcomes, x2.outcomes);
            std::process::exit(2);
        }
        println!("isolated:       {:?}", iso);
        println!("under schedule: {:?}", x1.outcomes);
        return Some(x1.outcomes != iso);
    }
    None
}

fn show_call(call: &Call) -> String {
    let n = call.expr.chars().count();
    if n > 100 {
        let head: String = call.expr.chars().take(40).collect();
        format!("eval_{}({:?}… [{} characters], {})", call.ev, head, n, call.at)
    } else {
        format!("eval_{}({:?}, {})", call.ev, call.expr, call.at)
    }
}

/// `vx hist i j k ...`: run the calls in order in this (fresh) process and print one outcome per line
pub fn hist_main(args: &[String]) {
    let a = alphabet();
    for x in args {
        match x.parse::<usize>() {
            Ok(i) => println!("{}", exec(&a[i])),
            Err(_) => println!("{}", exec(&decode_call(x).expect("call encoding"))),
        }
    }
}

/// `call:<evaluator>:<placeholder encoding>:<expression>` (the expression comes last: it may contain colons)
fn encode_call(c: &Call) -> String {
    format!("call:{}:{}:{}", c.ev, c.at, c.expr)
}

fn decode_call(x: &str) -> Option<Call> {
    let mut it = x.splitn(4, ':');
    if it.next()? != "call" {
        return None;
    }
    let ev = refmodel::vocab::Ev::from_name(it.next()?)?.name();
    let at = it.next()?.to_string();
    let expr = it.next()?.to_string();
    Some(Call { ev, expr, at })
}

fn fresh(indices: &[usize]) -> Result<Vec<String>, String> {
    fresh_args(indices.iter().map(|i| i.to_string()).collect())
}

fn fresh_calls(calls: &[Call]) -> Result<Vec<String>, String> {
    fresh_args(calls.iter().map(encode_call).collect())
}

fn fresh_args(args: Vec<String>) -> Result<Vec<String>, String> {
    let exe = std::env::current_exe().map_err(|e| e.to_string())?;
    let out = std::process::Command::new(exe)
        .arg("hist")
        .args(args)
        .output()
        .map_err(|e| e.to_string())?;
    if !out.status.success() {
        return Err(format!("child exited with {:?}", out.status));
    }
    Ok(String::from_utf8_lossy(&out.stdout).lines().map(|l| l.to_string()).collect())
}

fn hist_violation(cx: &RunCtx, a: &[Call], seq: &[usize], pos: usize, want: &str, got: &str, how: &str) {
    let text = seq.iter().map(|i| show_call(&a[*i])).collect::<Vec<_>>().join(" ; ");
    cx.rec.add(Violation {
        kind: Kind::Relation,
        ev: a[seq[pos]].ev.to_string(),
        input: text,
        at_enc: String::new(),
        at_show: String::new(),
        at_rust: String::new(),
        expected: format!("call #{} returns {} — its isolated first-time result", pos + 1, want),
        observed: format!("{} ({})", got, how),
        engine: "E-HIST".into(),
        family: None,
        detail: json!({"history": seq, "position": pos}),
    });
}

fn e_hist(cx: &RunCtx) {
    let t0 = Instant::now();
    let a = alphabet();
    let n = a.len();
    let mut st = Stats::default();
    // isolated first-time results, one fresh process per call
    let iso: Vec<String> = (0..n)
        .into_par_iter()
        .map(|i| fresh(&[i]).map(|v| v[0].clone()).unwrap_or_else(|e| format!("machinery:{}", e)))
        .collect();
    if let Some(bad) = iso.iter().find(|s| s.starts_with("machinery:")) {
        eprintln!("E-HIST: cannot obtain isolated results: {}", bad);
        std::process::exit(2);
    }
    st.nodes += n as u64;
    st.executions += n as u64;
    // every history of depth 2 in its own fresh process
    let pairs: Vec<(usize, usize)> = (0..n).flat_map(|i| (0..n).map(move |j| (i, j))).collect();
    let res: Vec<(usize, usize, Result<Vec<String>, String>)> = pairs.par_iter().map(|(i, j)| (*i, *j, fresh(&[*i, *j]))).collect();
    for (i, j, r) in res {
        st.nodes += 1;
        st.transitions += 1;
        st.executions += 2;
        st.relations += 2;
        match r {
            Ok(v) if v.len() == 2 => {
                if v[0] != iso[i] {
                    hist_violation(cx, &a, &[i, j], 0, &iso[i], &v[0], "fresh process");
                }
                if v[1] != iso[j] {
                    hist_violation(cx, &a, &[i, j], 1, &iso[j], &v[1], "fresh process");
                }
            }
            other => {
                eprintln!("E-HIST: child failure for history [{}, {}]: {:?}", i, j, other);
                std::process::exit(2);
            }
        }
    }
    // deeper histories in-process, depth-first (which also makes the whole run one long history)
    let depth = if cx.tier == Tier::Quick { 3 } else { 4 };
    let mut seq: Vec<usize> = Vec::new();
    fn dfs(cx: &RunCtx, a: &[Call], iso: &[String], seq: &mut Vec<usize>, depth: usize, st: &mut Stats) {
        if seq.len() == depth {
            // run the whole history
            for (pos, i) in seq.iter().enumerate() {
                let got = exec(&a[*i]);
                st.executions += 1;
                st.relations += 1;
                if got != iso[*i] {
                    // confirm in a fresh process (the first 64 mismatches only)
                    static CONFIRMED: std::sync::atomic::AtomicUsize = std::sync::atomic::AtomicUsize::new(0);
                    let how = if CONFIRMED.fetch_add(1, std::sync::atomic::Ordering::Relaxed) >= 64 {
                        "in-process; not re-run in a fresh process"
                    } else {
                        match fresh(seq) {
                            Ok(v) if v.get(pos) == Some(&got) => "confirmed in a fresh process running exactly this history",
                            Ok(_) => "in-process only (other worker threads were calling the library at the same time, and this thread had a longer history): not with this history alone in a fresh process",
                            Err(_) => "fresh-process confirmation failed",
                        }
                    };
                    hist_violation(cx, a, seq, pos, &iso[*i], &got, how);
                }
            }
            st.nodes += 1;
            return;
        }
        for i in 0..a.len() {
            seq.push(i);
            st.transitions += 1;
            dfs(cx, a, iso, seq, depth, st);
            seq.pop();
        }
    }
    // the sub-trees below each first call are explored by the pool's worker threads (each worker keeps
    // its own thread-local state and runs its histories one after the other)
    let _ = &mut seq;
    let parts: Vec<Stats> = (0..a.len())
        .into_par_iter()
        .map(|i| {
            let mut st = Stats::default();
            let mut seq = vec![i];
            st.transitions += 1;
            dfs(cx, &a, &iso, &mut seq, depth, &mut st);
            st
        })
        .collect();
    for p in &parts {
        st.merge(p);
    }
    st.samples.push(json!({"history": [show_call(&a[0]), show_call(&a[1]), show_call(&a[2])], "isolated_results": [iso[0], iso[1], iso[2]]}));
    let distinct: std::collections::BTreeSet<&String> = iso.iter().collect();
    cx.add_run(
        &st,
        json!({"engine": "E-HIST call histories vs isolated first-time results", "alphabet": a.iter().map(show_call).collect::<Vec<_>>(),
        "depth": depth, "fresh_process_histories": n + n * n, "distinct_isolated_outcomes": distinct.len(),
        "wall_s": t0.elapsed().as_secs_f64(), "stats": st.to_json()}),
    );
}

// ---------------------------------------------------------------- E-HIST sweep

/// Every string of the token-level enumeration (well-formed or not, failing at any stage and at any position)
/// as the *earlier* call of a history `[s, probe]` and as the *later* call of a history `[probe, s]`, for
/// every probe call of the same evaluator: the probe must return its isolated first-time result and `s` must
/// return what it returned before. Failures that stop the tokenizer or the parser in the middle of the input
/// (open brackets, a pending argument list, a half-read literal) are all among the enumerated strings.
fn e_sweep_dom<D: Dom>(cx: &RunCtx, a: &[Call], iso: &[String]) {
    if !cx.wants(D::EV.name()) {
        return;
    }
    // probes: every call of the alphabet on the same evaluator, and three calls on each other evaluator
    // (state shared between evaluators, e.g. in a common helper module)
    let mut probes: Vec<usize> = (0..a.len()).filter(|i| a[*i].ev == D::EV.name()).collect();
    for other in refmodel::vocab::ALL_EVS {
        if other != D::EV {
            probes.extend((0..a.len()).filter(|i| a[*i].ev == other.name()).take(3));
        }
    }
    let depth = if cx.tier == Tier::Quick { 3 } else { 4 };
    let at = D::default_at();
    let show = |r: &Run<D::V>| -> String {
        let out = match &r.out {
            Out::Ok(v) => format!("ok:{}", D::enc(v)),
            Out::Err => "err".into(),
            Out::Panic(m) => format!("panic:{}", m),
            Out::Budget(n) => format!("budget:{}", n),
        };
        format!("{} steps={}", out, r.steps)
    };
    let confirmations = std::sync::atomic::AtomicUsize::new(0);
    let report = |calls: Vec<Call>, pos: usize, want: &str, got: &str, rec: &Recorder| {
        // fresh-process confirmation of the first 64 mismatches only (two child processes each)
        if confirmations.fetch_add(1, std::sync::atomic::Ordering::Relaxed) >= 64 {
            rec.add(Violation {
                kind: Kind::Relation,
                ev: calls[pos].ev.to_string(),
                input: calls.iter().map(show_call).collect::<Vec<_>>().join(" ; "),
                at_enc: String::new(),
                at_show: String::new(),
                at_rust: String::new(),
                expected: format!("call #{} returns {} — what it returns without the other call", pos + 1, want),
                observed: format!("{} (in-process; not re-run in a fresh process)", got),
                engine: "E-HIST sweep".into(),
                family: None,
                detail: json!({"history_calls": calls.iter().map(encode_call).collect::<Vec<_>>(), "position": pos}),
            });
            return;
        }
        let how = match (fresh_calls(&calls), fresh_calls(&calls[pos..pos + 1])) {
            (Ok(h), Ok(i)) if h.get(pos) != i.first() => "confirmed: a fresh process running exactly this history differs from a fresh process running the call alone",
            (Ok(_), Ok(_)) => "in-process only (other worker threads were calling the library at the same time, and this thread had a longer history): not with this history alone in a fresh process",
            _ => "fresh-process confirmation failed",
        };
        rec.add(Violation {
            kind: Kind::Relation,
            ev: calls[pos].ev.to_string(),
            input: calls.iter().map(show_call).collect::<Vec<_>>().join(" ; "),
            at_enc: String::new(),
            at_show: String::new(),
            at_rust: String::new(),
            expected: format!("call #{} returns {} — what it returns without the other call", pos + 1, want),
            observed: format!("{} ({})", got, how),
            engine: "E-HIST sweep".into(),
            family: None,
            detail: json!({"history_calls": calls.iter().map(encode_call).collect::<Vec<_>>(), "position": pos}),
        });
    };
    let cb = |c: &Ctx<D>, st: &mut Stats, rec: &Recorder| {
        let me = Call {
            ev: D::EV.name(),
            expr: c.s.to_string(),
            at: D::enc(&at),
        };
        let first = show(&run::<D>(c.s, &at));
        st.executions += 1;
        for &pi in &probes {
            // [s, probe]
            let _ = run::<D>(c.s, &at);
            let got = exec(&a[pi]);
            st.executions += 2;
            st.relations += 1;
            if got != iso[pi] {
                report(vec![me.clone(), a[pi].clone()], 1, &iso[pi], &got, rec);
            } else {
                st.relations_both_ok += 1;
            }
            // [probe, s]
            let again = show(&run::<D>(c.s, &at));
            st.executions += 1;
            st.relations += 1;
            if again != first {
                report(vec![a[pi].clone(), me.clone()], 1, &first, &again, rec);
            } else {
                st.relations_both_ok += 1;
            }
        }
    };
    let none: [Kind; 0] = [];
    crate::checks::tok_run::<D>(
        cx,
        "E-HIST sweep: every enumerated string before and after each probe call",
        crate::alpha::sigma_class(D::EV),
        depth,
        9,
        crate::checks::ONLY_DEFAULT,
        &none,
        Some(&cb),
        2400,
    );
}

fn e_sweep(cx: &RunCtx) {
    let a = alphabet();
    let iso: Vec<String> = (0..a.len())
        .into_par_iter()
        .map(|i| fresh(&[i]).map(|v| v[0].clone()).unwrap_or_else(|e| format!("machinery:{}", e)))
        .collect();
    if let Some(bad) = iso.iter().find(|s| s.starts_with("machinery:")) {
        eprintln!("E-HIST sweep: cannot obtain isolated results: {}", bad);
        std::process::exit(2);
    }
    e_sweep_dom::<F64>(cx, &a, &iso);
    e_sweep_dom::<I64>(cx, &a, &iso);
    e_sweep_dom::<Dec>(cx, &a, &iso);
    e_sweep_dom::<Cpx>(cx, &a, &iso);
    e_sweep_dom::<Num>(cx, &a, &iso);
}

// ---------------------------------------------------------------- E-SCHED

#[derive(Clone, Debug)]
struct PointRec {
    running: usize,
    enabled: Vec<usize>,
    chosen: usize,
    running_enabled: bool,
}

struct SState {
    current: usize,
    finished: Vec<bool>,
    prefix: Vec<usize>,
    pos: usize,
    points: Vec<PointRec>,
    free_run: bool,
    diverged: bool,
    last_progress: Instant,
}

struct Sched {
    m: Mutex<SState>,
    cv: Condvar,
}

static SCHED: Mutex<Option<Arc<Sched>>> = Mutex::new(None);
thread_local! {
    static MY_TID: Cell<usize> = const { Cell::new(usize::MAX) };
}

fn sched_point(ending: bool) {
    let me = MY_TID.with(|t| t.get());
    if me == usize::MAX {
        return;
    }
    let s = match SCHED.lock().unwrap().clone() {
        Some(s) => s,
        None => return,
    };
    let mut st = s.m.lock().unwrap();
    if st.free_run {
        if ending {
            st.finished[me] = true;
            s.cv.notify_all();
        }
        return;
    }
    if ending {
        st.finished[me] = true;
    }
    let mut enabled: Vec<usize> = Vec::new();
    if !st.finished[me] {
        enabled.push(me);
    }
    for t in 0..st.finished.len() {
        if t != me && !st.finished[t] {
            enabled.push(t);
        }
    }
    if enabled.is_empty() {
        s.cv.notify_all();
        return;
    }
    let idx = if st.pos < st.prefix.len() {
        let c = st.prefix[st.pos];
        if c >= enabled.len() {
            st.diverged = true;
            0
        } else {
            c
        }
    } else {
        0
    };
    let running_enabled = !st.finished[me];
    st.points.push(PointRec {
        running: me,
        enabled: enabled.clone(),
        chosen: idx,
        running_enabled,
    });
    st.pos += 1;
    let next = enabled[idx];
    st.current = next;
    st.last_progress = Instant::now();
    if next != me {
        s.cv.notify_all();
        if !ending {
            while st.current != me && !st.free_run {
                st = s.cv.wait(st).unwrap();
            }
        }
    }
}

fn tick_hook(_p: string_calculator::verif_hooks::Point) {
    sched_point(false);
}

struct Execution {
    points: Vec<PointRec>,
    outcomes: Vec<Vec<String>>,
    infeasible: bool,
    diverged: bool,
}

fn run_schedule(threads: &[Vec<Call>], prefix: &[usize]) -> Execution {
    let n = threads.len();
    let sched = Arc::new(Sched {
        m: Mutex::new(SState {
            current: 0,
            finished: vec![false; n],
            prefix: prefix.to_vec(),
            pos: 0,
            points: Vec::new(),
            free_run: false,
            diverged: false,
            last_progress: Instant::now(),
        }),
        cv: Condvar::new(),
    });
    *SCHED.lock().unwrap() = Some(sched.clone());
    let mut handles = Vec::new();
    for (tid, calls) in threads.iter().enumerate() {
        let calls = calls.clone();
        let sched = sched.clone();
        handles.push(std::thread::spawn(move || {
            MY_TID.with(|t| t.set(tid));
            string_calculator::verif_hooks::set_yield_hook(Some(tick_hook));
            // wait for the baton
            {
                let mut st = sched.m.lock().unwrap();
                while st.current != tid && !st.free_run {
                    st = sched.cv.wait(st).unwrap();
                }
            }
            let mut outs = Vec::new();
            for call in &calls {
                sched_point(false); // call start is a scheduling point
                // run_with_budget resets the counters but keeps the yield hook
                outs.push(exec(call));
            }
            string_calculator::verif_hooks::set_yield_hook(None);
            sched_point(true);
            MY_TID.with(|t| t.set(usize::MAX));
            outs
        }));
    }
    // monitor: a baton holder that makes no progress for 2 s is blocked on something the scheduler
    // cannot see; let everything run freely and mark the schedule infeasible under cooperation
    let mut infeasible = false;
    loop {
        let mut st = sched.m.lock().unwrap();
        if st.finished.iter().all(|f| *f) {
            break;
        }
        let (g, _) = sched.cv.wait_timeout(st, Duration::from_millis(200)).unwrap();
        st = g;
        if st.finished.iter().all(|f| *f) {
            break;
        }
        if st.last_progress.elapsed() > Duration::from_secs(2) && !st.free_run {
            st.free_run = true;
            infeasible = true;
            sched.cv.notify_all();
        }
    }
    let outcomes: Vec<Vec<String>> = handles.into_iter().map(|h| h.join().unwrap_or_else(|_| vec!["thread-panicked".into()])).collect();
    *SCHED.lock().unwrap() = None;
    let st = sched.m.lock().unwrap();
    Execution {
        points: st.points.clone(),
        outcomes,
        infeasible,
        diverged: st.diverged,
    }
}

struct Explorer<'a> {
    cx: &'a RunCtx,
    threads: Vec<Vec<Call>>,
    iso: Vec<Vec<String>>,
    bound: usize,
    schedules: u64,
    by_preemptions: Vec<u64>,
    infeasible: u64,
    max_points: usize,
    outcome_vectors: std::collections::BTreeSet<String>,
    transitions: u64,
    violations: u64,
    deadline: Instant,
    capped: bool,
}

impl<'a> Explorer<'a> {
    fn check(&mut self, x: &Execution, prefix: &[usize]) {
        let key = format!("{:?}", x.outcomes);
        self.outcome_vectors.insert(key);
        for (t, outs) in x.outcomes.iter().enumerate() {
            for (k, o) in outs.iter().enumerate() {
                let want = self.iso[t].get(k).cloned().unwrap_or_default();
                if *o != want {
                    self.violations += 1;
                    let sched: Vec<usize> = x.points.iter().map(|p| p.chosen).collect();
                    let text = self
                        .threads
                        .iter()
                        .enumerate()
                        .map(|(i, cs)| format!("T{}: {}", i, cs.iter().map(show_call).collect::<Vec<_>>().join(" ; ")))
                        .collect::<Vec<_>>()
                        .join(" || ");
                    self.cx.rec.add(Violation {
                        kind: Kind::Relation,
                        ev: self.threads[t][k.min(self.threads[t].len() - 1)].ev.to_string(),
                        input: text,
                        at_enc: format!("schedule:{:?}", prefix),
                        at_show: String::new(),
                        at_rust: String::new(),
                        expected: format!("thread {} call #{} returns {} — its isolated result", t, k + 1, want),
                        observed: format!("{} under schedule {:?} ({} preemption(s))", o, sched, preemptions(&x.points)),
                        engine: "E-SCHED".into(),
                        family: None,
                        detail: json!({"schedule": sched, "thread_calls": self.threads.iter().map(|cs| cs.iter().map(call_index).collect::<Vec<_>>()).collect::<Vec<_>>(),
                            "threads": self.threads.iter().map(|cs| cs.iter().map(show_call).collect::<Vec<_>>()).collect::<Vec<_>>()}),
                    });
                }
            }
        }
    }

    fn explore(&mut self, prefix: Vec<usize>, expected: Vec<(usize, Vec<usize>)>) {
        if Instant::now() > self.deadline {
            self.capped = true;
            return;
        }
        let x = run_schedule(&self.threads, &prefix);
        self.schedules += 1;
        if x.infeasible {
            self.infeasible += 1;
            return;
        }
        // replaying a prefix must reproduce the same scheduling points: anything else means the
        // harness does not own all nondeterminism
        if x.diverged || expected.iter().enumerate().any(|(i, (r, e))| x.points.get(i).map(|p| (p.running, &p.enabled)) != Some((*r, e))) {
            // The harness owns every scheduling decision, so the same prefix must reproduce the same hook
            // points. If it does not, the calls did not execute the same steps as in the parent run: the
            // library carried something over from an earlier execution.
            let again = run_schedule(&self.threads, &prefix);
            let self_consistent = again.points.len() == x.points.len();
            eprintln!("E-SCHED: schedule prefix {:?} did not reproduce the hook points of its parent run", prefix);
            self.violations += 1;
            self.cx.rec.add(Violation {
                kind: Kind::Relation,
                ev: self.threads[0][0].ev.to_string(),
                input: self.threads.iter().enumerate().map(|(i, cs)| format!("T{}: {}", i, cs.iter().map(show_call).collect::<Vec<_>>().join(" ; "))).collect::<Vec<_>>().join(" || "),
                at_enc: format!("schedule-prefix:{:?}", prefix),
                at_show: String::new(),
                at_rust: String::new(),
                expected: "replaying a schedule prefix reproduces the same sequence of hook points (the calls execute the same steps every time)".into(),
                observed: format!(
                    "a different sequence of hook points than in the parent run of the same calls ({}): the steps of a call depend on earlier executions, i.e. state is kept between calls",
                    if self_consistent { "two back-to-back runs agree with each other" } else { "even two back-to-back runs differ" }
                ),
                engine: "E-SCHED".into(),
                family: None,
                detail: json!({"schedule_prefix": prefix}),
            });
            self.capped = true;
            self.deadline = Instant::now();
            return;
        }
        let pre = preemptions(&x.points);
        if pre < self.by_preemptions.len() {
            self.by_preemptions[pre] += 1;
        }
        self.max_points = self.max_points.max(x.points.len());
        self.check(&x, &prefix);
        for i in prefix.len()..x.points.len() {
            let p = &x.points[i];
            let cost_before = preemptions(&x.points[..i]);
            for alt in 1..p.enabled.len() {
                let cost = cost_before + if p.running_enabled { 1 } else { 0 };
                if cost > self.bound {
                    continue;
                }
                let mut np: Vec<usize> = x.points[..i].iter().map(|q| q.chosen).collect();
                np.push(alt);
                let exp: Vec<(usize, Vec<usize>)> = x.points[..=i].iter().map(|q| (q.running, q.enabled.clone())).collect();
                self.transitions += 1;
                self.explore(np, exp);
            }
        }
    }
}

fn preemptions(points: &[PointRec]) -> usize {
    points.iter().filter(|p| p.running_enabled && p.chosen != 0).count()
}

fn e_sched(cx: &RunCtx) {
    let a = alphabet();
    let by = |ev: &str, expr: &str, k: usize| -> Call { a.iter().filter(|c| c.ev == ev && c.expr == expr).nth(k).unwrap().clone() };
    let quick = cx.tier == Tier::Quick;
    // scenarios: two threads, each an aggregate (the only code with a scratch vector) and a placeholder call
    let mut scenarios: Vec<Vec<Vec<Call>>> = vec![
        vec![vec![by("f64", "med(30,10,20)", 0), by("f64", "@+1", 0)], vec![by("f64", "med(90,70,80,60)", 0), by("f64", "@+1", 1)]],
        vec![vec![by("i64", "med(30,10,20)", 0), by("i64", "@+1", 0)], vec![by("i64", "gcd(12,18,24)+5!", 0), by("i64", "@+1", 1)]],
        vec![vec![by("decimal", "med(30,10,20)", 0), by("decimal", "@+1", 0)], vec![by("decimal", "0.5!+5!", 0), by("decimal", "@+1", 1)]],
        vec![vec![by("complex", "sqrt(3+4i)", 0), by("complex", "@+1", 0)], vec![by("complex", "(1+i)^2", 0), by("complex", "@+1", 1)]],
        vec![vec![by("number", "med(30,10,20)", 0), by("number", "@+1", 0)], vec![by("number", "5!+2^0.5", 0), by("number", "@+1", 1)]],
        vec![vec![by("f64", "med(30,10,20)", 0), by("number", "@+1", 0)], vec![by("number", "med(30,10,20)", 0), by("f64", "@+1", 1)]],
        vec![vec![by("f64", "2+", 0), by("f64", "med(30,10,20)", 0)], vec![by("f64", "1.2.3", 0), by("f64", "med(30,10,20)", 0)]],
        vec![vec![by("f64", "5!+w(1)", 0), by("f64", "6!+w(2)", 0)], vec![by("f64", "6!+w(2)", 0), by("f64", "5!+w(1)", 0)]],
        vec![vec![by("i64", "med(70,1/0)", 0), by("i64", "med(30,10,20)", 0)], vec![by("i64", "gcd(35,49)+6!", 0), by("i64", "gcd(12,18,24)+5!", 0)]],
    ];
    // the same function argument in two evaluators (a memo or constant table shared between evaluators), and
    // tokenizer / parser failures next to a successful call of another evaluator
    scenarios.push(vec![vec![by("decimal", "w(2)", 0), by("number", "w(10)", 0)], vec![by("number", "w(2)", 0), by("decimal", "w(10)", 0)]]);
    scenarios.push(vec![vec![by("f64", "w(2)", 0), by("number", "w(2)", 0)], vec![by("number", "w(10)", 0), by("f64", "w(10)", 0)]]);
    scenarios.push(vec![vec![by("decimal", "((2+", 0), by("decimal", "(1+2)*3", 0)], vec![by("number", "min(2,", 0), by("number", "(1+2)*3", 0)]]);
    scenarios.push(vec![vec![by("complex", "((2+", 0), by("complex", "(1+2)*3", 0)], vec![by("complex", "1)", 0), by("complex", "sqrt(3+4i)", 0)]]);
    scenarios.push(vec![vec![by("f64", "2¹⁰", 0), by("number", "7²³", 0)], vec![by("i64", "3²+@³", 0), by("decimal", "2¹⁰", 0)]]);
    if !quick {
        scenarios.push(vec![vec![by("f64", "med(30,10,20)", 0)], vec![by("f64", "med(90,70,80,60)", 0)], vec![by("f64", "@+1", 1)]]);
        scenarios.push(vec![vec![by("i64", "med(30,10,20)", 0)], vec![by("i64", "@+1", 0)], vec![by("i64", "@+1", 1)]]);
    }
    let bound = if quick { 2 } else { 3 };
    // two deeply nested inputs at the same time, per evaluator: hundreds of scheduling points each, so with one
    // preemption fewer than the other scenarios (every point at which the first thread can be suspended while
    // the second runs to completion, and the reverse)
    let deep_expr = format!("{}1", "-".repeat(150));
    let mut scenarios: Vec<(Vec<Vec<Call>>, usize)> = scenarios.into_iter().map(|s| (s, bound)).collect();
    for ev in ["f64", "i64", "decimal", "complex", "number"] {
        let dc = a.iter().find(|c| c.ev == ev && c.expr == deep_expr).unwrap().clone();
        scenarios.push((vec![vec![dc.clone()], vec![dc]], bound - 1));
    }
    for (threads, bound) in scenarios {
        let t0 = Instant::now();
        // isolated results, computed on this thread without any scheduler installed
        let iso: Vec<Vec<String>> = threads.iter().map(|cs| cs.iter().map(exec).collect()).collect();
        let mut ex = Explorer {
            cx,
            threads: threads.clone(),
            iso: iso.clone(),
            bound,
            schedules: 0,
            by_preemptions: vec![0; bound + 1],
            infeasible: 0,
            max_points: 0,
            outcome_vectors: Default::default(),
            transitions: 0,
            violations: 0,
            deadline: cx.deadline(1500),
            capped: false,
        };
        ex.explore(vec![], vec![]);
        // a sequential re-run afterwards must still give the isolated results
        let after: Vec<Vec<String>> = threads.iter().map(|cs| cs.iter().map(exec).collect()).collect();
        if after != iso {
            cx.rec.add(Violation {
                kind: Kind::Relation,
                ev: threads[0][0].ev.to_string(),
                input: threads.iter().map(|cs| cs.iter().map(show_call).collect::<Vec<_>>().join(" ; ")).collect::<Vec<_>>().join(" || "),
                at_enc: "after-concurrent-runs".into(),
                at_show: String::new(),
                at_rust: String::new(),
                expected: format!("{:?} — the isolated results", iso),
                observed: format!("{:?} when the same calls are repeated sequentially after the concurrent runs", after),
                engine: "E-SCHED".into(),
                family: None,
                detail: json!({}),
            });
        }
        let mut st = Stats::default();
        st.nodes = ex.schedules;
        st.transitions = ex.transitions + 1;
        st.executions = ex.schedules * threads.iter().map(|t| t.len() as u64).sum::<u64>();
        st.relations = st.executions;
        st.relations_both_ok = st.executions;
        st.capped = ex.capped;
        st.nonvacuous = ex.max_points as u64;
        st.samples.push(json!({"threads": threads.iter().map(|cs| cs.iter().map(show_call).collect::<Vec<_>>()).collect::<Vec<_>>(),
            "scheduling_points": ex.max_points, "isolated": iso}));
        eprintln!(
            "[C16] E-SCHED {} threads, {} points: schedules {} by preemptions {:?}, outcomes {} infeasible {} ({:.1}s)",
            threads.len(),
            ex.max_points,
            ex.schedules,
            ex.by_preemptions,
            ex.outcome_vectors.len(),
            ex.infeasible,
            t0.elapsed().as_secs_f64()
        );
        cx.add_run(
            &st,
            json!({"engine": "E-SCHED baton scheduler over hook tick points, preemption-bounded DFS",
            "threads": threads.iter().map(|cs| cs.iter().map(show_call).collect::<Vec<_>>()).collect::<Vec<_>>(),
            "preemption_bound": bound, "schedules": ex.schedules, "schedules_by_preemptions": ex.by_preemptions,
            "scheduling_points_max": ex.max_points, "distinct_outcome_vectors": ex.outcome_vectors.len(),
            "infeasible_under_cooperation": ex.infeasible, "cap_hit": ex.capped, "wall_s": t0.elapsed().as_secs_f64()}),
        );
    }
}

/// free-running smoke test: same bodies on 16 unsynchronised threads (never decides on its own)
/// Free-running pass: 16 OS threads execute the alphabet concurrently without any scheduler. It explores
/// nothing systematically, so its silence means nothing and it is not part of the exhaustive verdict; but a
/// call that returns something else than its isolated result here IS a violation (the functions are
/// deterministic), so deviations are reported. This is the only place where state shared between threads and
/// touched between two hook points (outside E-SCHED's reach) can show at all.
fn smoke(cx: &RunCtx) {
    let a = alphabet();
    let iso: Vec<String> = a.iter().map(exec).collect();
    let bad = std::sync::atomic::AtomicU64::new(0);
    let first: Mutex<Vec<(usize, String)>> = Mutex::new(Vec::new());
    let rounds = if cx.tier == Tier::Quick { 400 } else { 4000 };
    std::thread::scope(|s| {
        for t in 0..16 {
            let a = &a;
            let iso = &iso;
            let bad = &bad;
            let first = &first;
            s.spawn(move || {
                for round in 0..rounds {
                    for i in 0..a.len() {
                        // same call on all threads in one half of the rounds, staggered calls in the other
                        let k = if round % 2 == 0 { (i + round) % a.len() } else { (i + t + round) % a.len() };
                        let got = exec(&a[k]);
                        if got != iso[k] {
                            bad.fetch_add(1, std::sync::atomic::Ordering::Relaxed);
                            let mut f = first.lock().unwrap();
                            if f.len() < 8 && !f.iter().any(|(j, _)| *j == k) {
                                f.push((k, got));
                            }
                        }
                    }
                }
            });
        }
    });
    let b = bad.load(std::sync::atomic::Ordering::Relaxed);
    for (k, got) in first.into_inner().unwrap() {
        cx.rec.add(Violation {
            kind: Kind::Relation,
            ev: a[k].ev.to_string(),
            input: show_call(&a[k]),
            at_enc: "free-running".into(),
            at_show: String::new(),
            at_rust: String::new(),
            expected: format!("{} — its isolated result", iso[k]),
            observed: format!("{} while 15 other threads were calling the library ({} deviating results in this pass)", got, b),
            engine: "E-PAR free-running threads".into(),
            family: None,
            detail: json!({}),
        });
    }
    cx.note(format!(
        "free-running 16-thread pass: {} deviating results out of {} calls (not exhaustive: silence here means nothing)",
        b,
        16 * rounds * a.len()
    ));
}

pub fn c16(cx: &RunCtx) {
    cx.assume("scheduling points are call start, every verif_hooks tick and thread end; unsynchronised accesses to new shared state between two hook points are serialised by the baton and are not explored");
    cx.assume("isolated first-time results come from fresh child processes (E-HIST) or from a scheduler-free run on the exploring thread (E-SCHED)");
    crate::sut::WATCHDOG_ON.store(false, std::sync::atomic::Ordering::Relaxed);
    e_hist(cx);
    e_sweep(cx);
    e_sched(cx);
    smoke(cx);
    crate::sut::WATCHDOG_ON.store(true, std::sync::atomic::Ordering::Relaxed);
}
