//! E-TREE based checks: C05 (f64), C06 (i64), C07 (decimal), C09 (number) and the tree parts of C01/C02.
use crate::ctx::*;
use crate::dom::*;
use crate::etree::*;
use refmodel::parse::*;
use refmodel::vocab::Func;
use rust_decimal::Decimal;
use std::str::FromStr;
use string_calculator::Number;

fn l<D: Dom>(t: &str) -> Leaf<D> {
    Leaf::of(lit(t))
}
fn nl<D: Dom>(t: &str) -> Leaf<D> {
    Leaf::of(neg(lit(t)))
}
fn div<D: Dom>(a: &str, b: &str) -> Leaf<D> {
    Leaf::of(paren(bin(BinOp::Div, lit(a), lit(b))))
}

pub fn pool_f64() -> Vec<Leaf<F64>> {
    let mut p: Vec<Leaf<F64>> = Vec::new();
    for t in [
        "0", "1", "2", "3", "0.5", "0.1", "2.5", "7", "10", "170", "171", "1000000", "9007199254740992", "9007199254740993",
        "4503599627370497.5", "10000000000000000000000", "100000000000000000000000", "0.000001", "1.5", "0.75",
    ] {
        p.push(l(t));
    }
    for t in ["0", "1", "0.5", "2.5", "7", "0.1", "3"] {
        p.push(nl(t));
    }
    p.push(div("1", "0"));
    p.push(Leaf::of(neg(paren(bin(BinOp::Div, lit("1"), lit("0"))))));
    p.push(div("0", "0"));
    p.push(div("1", "3"));
    for v in [f64::MAX, f64::MIN_POSITIVE, 5e-324, 1e300, -1e-310, f64::from_bits(0x7ff8_0000_0000_1234)] {
        p.push(Leaf::at(v));
    }
    p
}

pub fn pool_f64_small() -> Vec<Leaf<F64>> {
    let mut p: Vec<Leaf<F64>> = Vec::new();
    for t in ["0", "1", "2", "0.5", "2.5", "9007199254740993", "0.1"] {
        p.push(l(t));
    }
    p.push(nl("0"));
    p.push(nl("2.5"));
    p.push(div("1", "0"));
    p.push(div("0", "0"));
    p.push(Leaf::at(f64::MAX));
    p
}

pub fn pool_i64() -> Vec<Leaf<I64>> {
    let mut p: Vec<Leaf<I64>> = Vec::new();
    for t in [
        "0", "1", "2", "3", "7", "20", "21", "62", "63", "64", "2147483648", "4294967295", "4294967296", "3037000499", "3037000500",
        "4611686018427387904", "9223372036854775807",
    ] {
        p.push(l(t));
    }
    for t in ["1", "2", "7", "64", "9223372036854775807"] {
        p.push(nl(t));
    }
    // i64::MIN has no literal: (-9223372036854775807-1)
    p.push(Leaf::of(paren(bin(BinOp::Sub, neg(lit("9223372036854775807")), lit("1")))));
    p.push(Leaf::at(i64::MIN));
    p.push(Leaf::at(-4611686018427387904));
    p
}

pub fn pool_i64_small() -> Vec<Leaf<I64>> {
    let mut p: Vec<Leaf<I64>> = Vec::new();
    for t in ["0", "1", "2", "63", "64", "3037000500", "9223372036854775807"] {
        p.push(l(t));
    }
    p.push(nl("1"));
    p.push(nl("2"));
    p.push(Leaf::at(i64::MIN));
    p
}

pub fn pool_dec() -> Vec<Leaf<Dec>> {
    let mut p: Vec<Leaf<Dec>> = Vec::new();
    for t in [
        "0", "1", "2", "3", "7", "0.1", "0.2", "0.3", "1.10", "0.5", "2.5", "10", "1000000", "4294967296",
        "0.0000000000000000000000000001", "1.0000000000000000000000000001", "0.3333333333333333333333333333",
        "0.6666666666666666666666666667", "9999999999999999999999999999", "7922816251426433759354395033",
        "0.7922816251426433759354395033", "123456789.123456789",
    ] {
        p.push(l(t));
    }
    for t in ["1", "0.1", "2.5", "7", "0.3333333333333333333333333333", "9999999999999999999999999999"] {
        p.push(nl(t));
    }
    let mut nz = Decimal::ZERO;
    nz.set_sign_negative(true);
    for v in [Decimal::MAX, Decimal::MIN, Decimal::from_str("39614081257132168796771975168").unwrap(), nz] {
        p.push(Leaf::at(v));
    }
    p
}

pub fn pool_dec_small() -> Vec<Leaf<Dec>> {
    let mut p: Vec<Leaf<Dec>> = Vec::new();
    for t in ["0", "1", "3", "0.1", "0.3", "1.10", "0.0000000000000000000000000001", "9999999999999999999999999999", "4294967296"] {
        p.push(l(t));
    }
    p.push(nl("7"));
    p.push(nl("0.1"));
    p.push(Leaf::at(Decimal::MAX));
    p
}

pub fn pool_num() -> Vec<Leaf<Num>> {
    let mut p: Vec<Leaf<Num>> = Vec::new();
    for t in [
        "0", "1", "2", "3", "7", "20", "21", "170", "3037000500", "4294967296", "9007199254740993", "4611686018427387904",
        "9223372036854775807", "0.5", "2.5", "2.4", "2.6", "7.0", "3.0", "0.0", "10000000000000000000.0", "9007199254740992.0",
        "9223372036854775808.0", "0.1",
    ] {
        p.push(l(t));
    }
    for t in ["1", "7", "2.5", "0.5", "2.4", "0.0", "9223372036854775807"] {
        p.push(nl(t));
    }
    p.push(Leaf::of(paren(bin(BinOp::Sub, neg(lit("9223372036854775807")), lit("1")))));
    p.push(div("1.0", "0"));
    p.push(div("0.0", "0"));
    p.push(Leaf::at(Number::Integer(i64::MIN)));
    p.push(Leaf::at(Number::Float(f64::MAX)));
    p.push(Leaf::at(Number::Float(-9223372036854775808.0)));
    p
}

pub fn pool_num_small() -> Vec<Leaf<Num>> {
    let mut p: Vec<Leaf<Num>> = Vec::new();
    for t in ["0", "2", "7", "3037000500", "9223372036854775807", "0.5", "2.5", "3.0"] {
        p.push(l(t));
    }
    p.push(nl("1"));
    p.push(nl("2.5"));
    p.push(Leaf::at(Number::Integer(i64::MIN)));
    p
}

fn ops(b: &[BinOp]) -> Vec<BinKind> {
    b.iter().map(|x| BinKind::Op(*x)).collect()
}

fn run_cfg<D: Dom>(cx: &RunCtx, cfg: TreeCfg<D>) {
    if !cx.wants(D::EV.name()) {
        return;
    }
    let (st, desc) = explore_trees::<D>(&cfg, &cx.rec);
    eprintln!(
        "[{}] {} {}: depth {} trees {} compared {} unspecified {} viol-so-far {} ({:.1}s)",
        cx.prop,
        cfg.engine,
        D::EV.name(),
        cfg.depth,
        st.nodes,
        st.compared,
        st.unspecified,
        cx.rec.total(),
        cx.t0.elapsed().as_secs_f64()
    );
    cx.add_run(&st, desc);
}

// ---------------------------------------------------------------- C05
pub fn c05(cx: &RunCtx) {
    cx.assume("reference and subject call the same std / libm primitive in the same process, so results are compared bit for bit (NaNs identified)");
    let kinds = [Kind::Value, Kind::WellFormedErr, Kind::MustErrOk];
    crate::fam::sign_runs::<F64>(cx, &kinds);
    crate::fam::idioms::<F64>(cx, &kinds);
    use BinOp::*;
    let mut bins = ops(&[Add, Sub, Mul, Div, Rem, Pow]);
    bins.push(BinKind::Call(Func::Pow));
    bins.push(BinKind::Call(Func::Mod));
    let uns = vec![
        UnOp::Neg,
        UnOp::Call(Func::Abs),
        UnOp::Call(Func::Floor),
        UnOp::Call(Func::Ceil),
        UnOp::Call(Func::Trunc),
        UnOp::Call(Func::Round),
        UnOp::Call(Func::Sqrt),
        UnOp::Floor,
        UnOp::Ceil,
        UnOp::Sup2,
    ];
    let mut pool = pool_f64();
    pool.push(Leaf::of(nd(Expr::Pi)));
    pool.push(Leaf::of(nd(Expr::E)));
    let cfg = TreeCfg::<F64> {
        engine: "E-TREE f64 arithmetic".into(),
        bins,
        uns,
        pool,
        pool3: pool_f64_small(),
        depth: if cx.tier == Tier::Quick { 2 } else { 3 },
        kinds: &kinds,
        judge: None,
        on_ok: None,
        family: None,
    };
    run_cfg(cx, cfg);
    // the same operations over ranges instead of boundary values: a replacement that agrees with the C-library
    // operation except in the last bit of a sparse set of operands (sqrt for ^0.5, a product for ^2, a
    // reciprocal for ^-1, fmod through a quotient) shows only there. Whole operands 1..20000, k/16 up to 500,
    // every one-argument operation, and ^ % / * + - with the partners 0.5, 2, 3, -1, 1/3, 7, 0.1 on either side.
    let mut xs: Vec<String> = (1..=20000).map(|x| x.to_string()).collect();
    xs.extend((1..=8000).map(|k| format!("{}", k as f64 / 16.0)));
    let mut inputs: Vec<String> = Vec::new();
    for x in &xs {
        for f in ["abs", "floor", "ceil", "trunc", "round", "sqrt"] {
            inputs.push(format!("{}({})", f, x));
            inputs.push(format!("{}(-{})", f, x));
        }
        inputs.push(format!("{}²", x));
        for c in ["0.5", "2", "3", "(-1)", "(1/3)", "7", "0.1"] {
            for op in ["^", "%", "/", "*", "+", "-"] {
                inputs.push(format!("{}{}{}", x, op, c));
                inputs.push(format!("{}{}{}", c, op, x));
            }
        }
    }
    // exponents with three decimal digits (k/1000 up to 20) over the bases for which a special-purpose routine
    // exists (exp2, exp10, exp, sqrt / cbrt chains), in both spellings of the power and with the base computed
    for k in 1..=20000 {
        let x = format!("{}", k as f64 / 1000.0);
        for b in ["2", "10", "e", "3", "0.5", "(1+1)", "4"] {
            inputs.push(format!("{}^{}", b, x));
            inputs.push(format!("{}^(-{})", b, x));
        }
        inputs.push(format!("pow(2,{})", x));
    }
    crate::fam::run_list::<F64>(cx, "E-FUNC f64 operations over operand ranges (bit for bit)", &inputs, &[F64::default_at()], &kinds);
}

// ---------------------------------------------------------------- C06
pub fn c06(cx: &RunCtx) {
    cx.assume("the oracle is exact arithmetic in i128 followed by the rules of C06; x<<y that does not fit and exponents outside 0..4294967295 carry no demand; MIN / -1 must be Err (no i64 is the quotient, so any Ok value would be fabricated)");
    let kinds = [Kind::Value, Kind::WellFormedErr, Kind::MustErrOk];
    crate::fam::sign_runs::<I64>(cx, &kinds);
    crate::fam::idioms::<I64>(cx, &kinds);
    crate::fam::big_integers_one::<I64>(cx, &kinds);
    use BinOp::*;
    let mut bins = ops(&[Add, Sub, Mul, Div, Rem, Pow, And, Or, Shl, Shr]);
    bins.push(BinKind::Call(Func::Pow));
    bins.push(BinKind::Call(Func::Mod));
    let uns = vec![UnOp::Neg, UnOp::Fact, UnOp::Call(Func::Abs), UnOp::Call(Func::Sign), UnOp::Sup2];
    let cfg = TreeCfg::<I64> {
        engine: "E-TREE i64 arithmetic".into(),
        bins,
        uns,
        pool: pool_i64(),
        pool3: pool_i64_small(),
        depth: if cx.tier == Tier::Quick { 2 } else { 3 },
        kinds: &kinds,
        judge: None,
        on_ok: None,
        family: None,
    };
    let (bins1, uns1) = (cfg.bins.clone(), cfg.uns.clone());
    run_cfg(cx, cfg);
    // every operation over all ordered pairs of the small integers -40..40 (sign rules of / % >>, shifts by every
    // small count, small powers): a slip that needs one particular small pair is not in the boundary pool
    let small: Vec<Leaf<I64>> = (-40i64..=40).map(|v| if v < 0 { Leaf::of(neg(lit(&(-v).to_string()))) } else { Leaf::of(lit(&v.to_string())) }).collect();
    let cfg_small = TreeCfg::<I64> {
        engine: "E-TREE i64 arithmetic over all pairs of -40..40".into(),
        bins: bins1,
        uns: uns1,
        pool: small,
        pool3: vec![],
        depth: 1,
        kinds: &kinds,
        judge: None,
        on_ok: None,
        family: None,
    };
    run_cfg(cx, cfg_small);
}

// ---------------------------------------------------------------- C07
fn judge_dec_exact(n: &Node, at: &Decimal, got: Option<&Decimal>) -> Judge {
    use refmodel::ev_dec_exact::*;
    match eval(n, *at) {
        XV::Unspec(r) => Judge::Skip(r),
        XV::MustErr(r) => match got {
            Some(_) => Judge::Bad(Kind::MustErrOk, format!("Err ({})", r)),
            None => Judge::Agree,
        },
        XV::Exact(w) => match got {
            None => Judge::Bad(Kind::WellFormedErr, format!("Ok({}) exactly", show(&w))),
            Some(g) => {
                if matches_exact(*g, &w) {
                    Judge::Agree
                } else {
                    Judge::Bad(Kind::Value, format!("Ok({}) exactly", show(&w)))
                }
            }
        },
        XV::Approx(w) => match got {
            None => Judge::Bad(Kind::WellFormedErr, format!("Ok(~{:e}) within 1e-27*max(1,|q|)", w.to_f64())),
            Some(g) => {
                if matches_approx(*g, &w) {
                    Judge::Agree
                } else {
                    Judge::Bad(Kind::Value, format!("Ok(~{:e}) within 1e-27*max(1,|q|)", w.to_f64()))
                }
            }
        },
    }
}

/// Known-finding family of C07 (defect inside rust_decimal 1.43, ops/rem.rs): a remainder a % b whose
/// dividend has the smaller scale and cannot be rescaled to the divisor's scale within 96 bits,
/// i.e. scale(a) < scale(b) and |coefficient(a)| * 10^(scale(b) - scale(a)) >= 2^96.
fn rem_rescale_overflow(a: Decimal, b: Decimal) -> bool {
    if a.scale() >= b.scale() {
        return false;
    }
    let m = refmodel::big::Mag::from_u128(a.mantissa().unsigned_abs());
    let scaled = m.mul(&refmodel::big::Mag::pow10(b.scale() - a.scale()));
    scaled.bits() > 96
}

fn dec_family_at(n: &Node, at: Decimal) -> Option<String> {
    fn val(n: &Node, at: Decimal) -> Option<Decimal> {
        match refmodel::ev_dec::eval(n, at) {
            refmodel::rv::RV::Val(v, _) => Some(v),
            _ => None,
        }
    }
    fn walk(n: &Node, at: Decimal, found: &mut bool) {
        match &n.e {
            Expr::Bin(b, l, r) => {
                if *b == BinOp::Rem {
                    if let (Some(a), Some(c)) = (val(l, at), val(r, at)) {
                        if rem_rescale_overflow(a, c) {
                            *found = true;
                        }
                    }
                }
                walk(l, at, found);
                walk(r, at, found);
            }
            Expr::Call(f, args) => {
                if *f == Func::Mod && args.len() == 2 {
                    if let (Some(a), Some(c)) = (val(&args[0], at), val(&args[1], at)) {
                        if rem_rescale_overflow(a, c) {
                            *found = true;
                        }
                    }
                }
                for a in args {
                    walk(a, at, found);
                }
            }
            Expr::Neg(x) | Expr::Pos(x) | Expr::Group(_, x) | Expr::Post(_, x) | Expr::Sup(x, _) => walk(x, at, found),
            _ => {}
        }
    }
    let mut f = false;
    walk(n, at, &mut f);
    if f {
        Some("rust_decimal-rem-dividend-rescale-overflow".into())
    } else {
        None
    }
}

pub fn c07(cx: &RunCtx) {
    cx.assume("the oracle is exact rational arithmetic on arbitrary-precision integers (refmodel/big.rs); results between Decimal::MAX and MAX+1 and non-representable sums/products carry no demand");
    let kinds = [Kind::Value, Kind::WellFormedErr, Kind::MustErrOk];
    crate::fam::sign_runs::<Dec>(cx, &kinds);
    crate::fam::idioms::<Dec>(cx, &kinds);
    crate::fam::big_integers_one::<Dec>(cx, &kinds);
    use BinOp::*;
    let mut bins = ops(&[Add, Sub, Mul, Div, Rem]);
    bins.push(BinKind::Call(Func::Mod));
    let cfg = TreeCfg::<Dec> {
        engine: "E-TREE decimal arithmetic vs exact rationals".into(),
        bins,
        uns: vec![UnOp::Neg],
        pool: pool_dec(),
        pool3: pool_dec_small(),
        depth: if cx.tier == Tier::Quick { 2 } else { 3 },
        kinds: &kinds,
        judge: Some(&judge_dec_exact),
        on_ok: None,
        family: Some(&|n, _t, at| dec_family_at(n, *at)),
    };
    let bins1 = cfg.bins.clone();
    run_cfg(cx, cfg);
    // all ordered pairs of small decimals of every scale 0..3 (k/4, k/8, tenths, hundredths, with and without
    // trailing zeros), both signs: the scale and sign rules of + - * / % on ordinary values
    let mut small: Vec<Leaf<Dec>> = Vec::new();
    let mut texts: Vec<String> = Vec::new();
    for k in 0..=40 {
        texts.push(format!("{}", k as f64 / 4.0));
        texts.push(format!("{}", k as f64 / 8.0));
    }
    for t in ["0.1", "0.2", "0.3", "0.7", "1.1", "1.10", "1.100", "2.50", "3.0", "3.00", "0.01", "0.05", "0.99", "9.99", "0.001", "0.125", "12.345", "100", "1000", "7", "13"] {
        texts.push(t.to_string());
    }
    texts.sort();
    texts.dedup();
    for t in &texts {
        small.push(Leaf::of(lit(t)));
        if t != "0" {
            small.push(Leaf::of(neg(lit(t))));
        }
    }
    let cfg_small = TreeCfg::<Dec> {
        engine: "E-TREE decimal arithmetic over all pairs of small values of every scale vs exact rationals".into(),
        bins: bins1,
        uns: vec![UnOp::Neg],
        pool: small,
        pool3: vec![],
        depth: 1,
        kinds: &kinds,
        judge: Some(&judge_dec_exact),
        on_ok: None,
        family: Some(&|n, _t, at| dec_family_at(n, *at)),
    };
    run_cfg(cx, cfg_small);
}

// ---------------------------------------------------------------- C09
pub fn c09(cx: &RunCtx) {
    cx.assume("Integer-only steps are checked for variant and value against i128 arithmetic; steps with a Float operand are checked for their numeric value only (the variant of such results is not specified)");
    let kinds = [Kind::Value, Kind::WellFormedErr, Kind::MustErrOk];
    crate::fam::sign_runs::<Num>(cx, &kinds);
    crate::fam::idioms::<Num>(cx, &kinds);
    crate::fam::big_integers_one::<Num>(cx, &kinds);
    use BinOp::*;
    let mut bins = ops(&[Add, Sub, Mul, Div, Rem, Pow]);
    bins.push(BinKind::Call(Func::Pow));
    bins.push(BinKind::Call(Func::Mod));
    let uns = vec![
        UnOp::Neg,
        UnOp::Fact,
        UnOp::Call(Func::Abs),
        UnOp::Call(Func::Sign),
        UnOp::Call(Func::Floor),
        UnOp::Call(Func::Ceil),
        UnOp::Call(Func::Round),
        UnOp::Call(Func::Trunc),
        UnOp::Floor,
        UnOp::Ceil,
        UnOp::Sup2,
    ];
    let cfg = TreeCfg::<Num> {
        engine: "E-TREE number arithmetic (typed)".into(),
        bins,
        uns,
        pool: pool_num(),
        pool3: pool_num_small(),
        depth: if cx.tier == Tier::Quick { 2 } else { 3 },
        kinds: &kinds,
        judge: None,
        on_ok: None,
        family: None,
    };
    let (bins1, uns1) = (cfg.bins.clone(), cfg.uns.clone());
    run_cfg(cx, cfg);
    // all ordered pairs of the small Integers -24..24 and the Floats k/2 (written with a point, so that 2.0 is a
    // Float): every Integer / Float combination of every operation on ordinary values
    let mut small: Vec<Leaf<Num>> = Vec::new();
    for v in -24i64..=24 {
        small.push(if v < 0 { Leaf::of(neg(lit(&(-v).to_string()))) } else { Leaf::of(lit(&v.to_string())) });
    }
    for k in -16i64..=16 {
        let t = format!("{:.1}", k.abs() as f64 / 2.0);
        small.push(if k < 0 { Leaf::of(neg(lit(&t))) } else { Leaf::of(lit(&t)) });
    }
    let cfg_small = TreeCfg::<Num> {
        engine: "E-TREE number arithmetic over all pairs of small Integers and Floats".into(),
        bins: bins1,
        uns: uns1,
        pool: small,
        pool3: vec![],
        depth: 1,
        kinds: &kinds,
        judge: None,
        on_ok: None,
        family: None,
    };
    run_cfg(cx, cfg_small);
}

// ---------------------------------------------------------------- union-of-everything trees for C01 / C02

fn complex_pool_full() -> Vec<Leaf<Cpx>> {
    let mut p = crate::cchecks::pool_cpx();
    for v in Cpx::pool_full() {
        p.push(Leaf::at(v));
    }
    p.push(Leaf::of(lit("0")));
    p
}

fn all_bins(ev: refmodel::vocab::Ev) -> Vec<BinKind> {
    use refmodel::vocab::*;
    use BinOp::*;
    let mut b: Vec<BinKind> = vec![BinKind::Op(Add), BinKind::Op(Sub), BinKind::Op(Mul), BinKind::Op(Div), BinKind::Op(Pow)];
    if ev.has_percent() {
        b.push(BinKind::Op(Rem));
    }
    if ev.has_bitops() {
        for o in [And, Or, Shl, Shr] {
            b.push(BinKind::Op(o));
        }
    }
    let mut seen = vec![];
    for (_, f) in func_names(ev) {
        if seen.contains(f) {
            continue;
        }
        seen.push(*f);
        match f.arity() {
            Arity::Fixed(2) | Arity::Var0 | Arity::Var1 => b.push(BinKind::Call(*f)),
            _ => {}
        }
    }
    b
}

fn all_uns(ev: refmodel::vocab::Ev) -> Vec<UnOp> {
    use refmodel::vocab::*;
    let mut u = vec![UnOp::Neg, UnOp::Sup2];
    if ev.has_factorial() {
        u.push(UnOp::Fact);
    }
    if ev.has_deg_rad() {
        u.push(UnOp::Deg);
        u.push(UnOp::Rad);
    }
    if ev.has_floor_brackets() {
        u.push(UnOp::Floor);
        u.push(UnOp::Ceil);
    }
    let mut seen = vec![];
    for (_, f) in func_names(ev) {
        if seen.contains(f) {
            continue;
        }
        seen.push(*f);
        match f.arity() {
            Arity::Fixed(1) | Arity::Var0 | Arity::Var1 => u.push(UnOp::Call(*f)),
            _ => {}
        }
    }
    u
}

fn extend_with_placeholders<D: Dom>(mut pool: Vec<Leaf<D>>) -> Vec<Leaf<D>> {
    for v in D::pool_full() {
        pool.push(Leaf::at(v));
    }
    pool
}

fn all_ops_dom<D: Dom>(cx: &RunCtx, kinds: &[Kind], pool: Vec<Leaf<D>>, small: Vec<Leaf<D>>) {
    // depth 1 over the full pool (every operator / function x every pair of boundary operands and
    // placeholders), depth 2 over the small pool (quick) or the full pool (thorough)
    let quick = cx.tier == Tier::Quick;
    let cfg1 = TreeCfg::<D> {
        engine: "E-TREE every operator and function x full boundary pool (depth 1)".into(),
        bins: all_bins(D::EV),
        uns: all_uns(D::EV),
        pool: pool.clone(),
        pool3: vec![],
        depth: 1,
        kinds,
        judge: None,
        on_ok: None,
        family: None,
    };
    run_cfg(cx, cfg1);
    let cfg2 = TreeCfg::<D> {
        engine: "E-TREE every operator and function (depth 2)".into(),
        bins: all_bins(D::EV),
        uns: all_uns(D::EV),
        pool: if quick { small } else { pool },
        pool3: vec![],
        depth: 2,
        kinds,
        judge: None,
        on_ok: None,
        family: None,
    };
    run_cfg(cx, cfg2);
}

pub fn all_ops_trees(cx: &RunCtx, kinds: &[Kind]) {
    all_ops_dom::<F64>(cx, kinds, extend_with_placeholders(pool_f64()), pool_f64_small());
    all_ops_dom::<I64>(cx, kinds, extend_with_placeholders(pool_i64()), pool_i64_small());
    all_ops_dom::<Dec>(cx, kinds, extend_with_placeholders(pool_dec()), pool_dec_small());
    all_ops_dom::<Cpx>(cx, kinds, complex_pool_full(), crate::cchecks::pool_cpx().into_iter().take(10).collect());
    all_ops_dom::<Num>(cx, kinds, extend_with_placeholders(pool_num()), pool_num_small());
}
