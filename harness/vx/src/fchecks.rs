//! C10 (every documented function, alias and constant) and C11 (aggregates): complete enumeration
//! of (evaluator, name) x a fixed argument grid, rendered as text and judged by the reference.
use crate::ctx::*;
use crate::dom::*;
use crate::fam::run_list;
use refmodel::vocab::*;

/// thorough tier: the one-argument grid is refined once more (k/128 instead of k/32)
pub static DENSER: std::sync::OnceLock<bool> = std::sync::OnceLock::new();

fn spell(x: f64) -> String {
    let a = format!("{}", x.abs());
    if x < 0.0 || (x == 0.0 && x.is_sign_negative()) {
        format!("(-{})", a)
    } else {
        a
    }
}

/// k/8 for |k| <= 80, +-10^k, and a few edge values
pub fn grid1(ev: Ev, dense: bool) -> Vec<String> {
    let mut g: Vec<String> = Vec::new();
    if ev == Ev::I64 {
        for i in -12i64..=100 {
            g.push(spell(i as f64));
        }
        for k in 2..=18u32 {
            let p = 10i64.pow(k);
            for d in [-1i64, 0, 1] {
                g.push(format!("{}", p + d));
            }
        }
        for k in [7u32, 8, 15, 16, 20, 31, 32, 33, 40, 52, 53, 54, 62] {
            let p = 1i64 << k;
            for d in [-1i64, 0, 1] {
                g.push(format!("{}", p + d));
            }
        }
        g.push("9223372036854775807".into());
        g.push("(-9223372036854775807)".into());
        g.sort();
        g.dedup();
        return g;
    }
    if dense {
        let (steps, div) = if *DENSER.get().unwrap_or(&false) { (2560i32, 128.0) } else { (640i32, 32.0) };
        for k in -steps..=steps {
            g.push(spell(k as f64 / div));
        }
        for k in 1..=60i32 {
            g.push(spell(20.0 + k as f64 * 2.5));
            g.push(spell(-(20.0 + k as f64 * 2.5)));
        }
    } else {
        for k in -80i32..=80 {
            g.push(spell(k as f64 / 8.0));
        }
    }
    for k in -6i32..=12 {
        let v = 10f64.powi(k);
        g.push(spell(v));
        g.push(spell(-v));
    }
    for t in ["(-0)", "(-0.0)", "0.0", "0.3", "0.7", "1.0000001", "0.9999999", "(-0.3)", "(-0.36)", "(-0.367)", "(-0.3678)", "100.5", "150.25", "(-149.75)", "170", "171", "20", "21", "27", "28", "33", "1000000", "3.14159", "255", "256", "1024", "65536", "0.001"] {
        g.push(t.to_string());
    }
    g.sort();
    g.dedup();
    g
}

/// quarter steps with |x| <= 150 for the factorial
pub fn grid_fact(ev: Ev) -> Vec<String> {
    let mut g = Vec::new();
    if ev == Ev::I64 {
        for i in -3..=25 {
            g.push(spell(i as f64));
        }
        return g;
    }
    for k in -600i32..=600 {
        g.push(spell(k as f64 / 4.0));
    }
    for t in ["170", "171", "200", "0.1", "0.9", "(-0.9)", "(-0.1)"] {
        g.push(t.to_string());
    }
    // whole values that carry fractional zeros (a Decimal keeps them: 3.0 and 3 differ in scale, not in value),
    // written out and computed
    for n in 0..=28 {
        g.push(format!("{}.0", n));
        g.push(format!("{}.00", n));
        g.push(format!("({}.5+0.5)", n));
    }
    // next to the poles of x! (the negative integers): -n +- 2^-k, written out exactly
    for n in (1..=24i32).chain([50, 99, 100, 149]) {
        for k in [8i32, 16, 24, 30, 36, 44] {
            for sgn in [-1.0f64, 1.0] {
                let x = -(n as f64) + sgn * 2f64.powi(-k);
                if x + n as f64 == sgn * 2f64.powi(-k) {
                    let mut t = format!("{:.70}", x.abs());
                    while t.ends_with('0') {
                        t.pop();
                    }
                    g.push(format!("(-{})", t));
                }
            }
        }
    }
    // next to the positive integers too (an argument "snapped" to the whole number it is close to): n +- 10^-j
    if ev != Ev::I64 {
        for n in [2i32, 3, 5, 10, 20, 50, 100, 149] {
            for j in [3usize, 6, 7, 8, 9, 10, 11, 12, 13] {
                g.push(format!("{}.{}1", n, "0".repeat(j - 1)));
                g.push(format!("{}.{}", n - 1, "9".repeat(j)));
            }
        }
    }
    // … and at decimal distances 10^-j (what a Decimal holds exactly and a double does not): the reflection formula
    // magnifies the error of its constant pi by |x| / distance
    if ev == Ev::Dec {
        for n in [1i32, 2, 3, 5, 10, 20, 50, 100, 149] {
            for j in [3usize, 6, 8, 9, 10, 11, 12, 13, 14, 15, 16] {
                g.push(format!("(-{}.{}1)", n, "0".repeat(j - 1)));
                g.push(format!("(-{}.{})", n - 1, "9".repeat(j)));
            }
        }
    }
    g
}

/// sub-grid for two-argument functions
pub fn grid2(ev: Ev, dense: bool) -> Vec<String> {
    let mut g = grid2_base(ev);
    if dense && ev != Ev::I64 {
        for t in ["0.75", "1.25", "3.5", "6", "12", "20", "0.01", "0.9", "1.1", "(-0.25)", "(-1.5)", "(-4)", "(-7)", "(-100)", "50", "0.3", "(-0.3)", "(-0.9)", "40", "41",
            "(-40)", "(-41)", "66", "(-66)", "0.7", "(-0.7)"] {
            g.push(t.to_string());
        }
    }
    if dense && ev == Ev::I64 {
        for t in ["6", "11", "12", "15", "31", "32", "33", "81", "125", "243", "255", "256", "4096", "(-3)", "(-9)", "(-64)", "(-1000)"] {
            g.push(t.to_string());
        }
    }
    g
}

fn grid2_base(ev: Ev) -> Vec<String> {
    if ev == Ev::I64 {
        let mut g: Vec<String> = ["0", "1", "2", "3", "4", "5", "7", "8", "9", "10", "16", "27", "63", "64", "100", "1000", "1024", "65536", "1000000", "4294967296",
            "1000000000000000", "1000000000000001", "(-1)", "(-2)", "(-7)", "(-8)", "(-27)"]
            .iter()
            .map(|s| s.to_string())
            .collect();
        g.push("9223372036854775807".into());
        return g;
    }
    ["0", "0.5", "1", "1.5", "2", "2.5", "3", "4", "5", "7", "8", "10", "0.125", "0.25", "0.1", "100", "1000", "0.001", "(-0.5)", "(-1)", "(-2)", "(-2.5)", "(-3)", "(-8)",
        "(-0.125)", "(-10)", "1000000", "27", "16", "9", "0.0000000000000123", "0.00000001234567", "(-0.25)"]
        .iter()
        .map(|s| s.to_string())
        .collect()
}

pub fn c10_inputs(ev: Ev, dense: bool) -> Vec<String> {
    let mut out: Vec<String> = Vec::new();
    let g1 = grid1(ev, dense);
    let g2 = grid2(ev, dense);
    let mut seen: Vec<&str> = Vec::new();
    for (name, f) in func_names(ev) {
        if seen.contains(name) {
            continue;
        }
        seen.push(name);
        match f {
            Func::ILog | Func::Min | Func::Max | Func::Avg | Func::Med | Func::Gcd | Func::Lcm => continue,
            _ => {}
        }
        match f.arity() {
            Arity::Fixed(1) => {
                for x in &g1 {
                    out.push(format!("{}({})", name, x));
                }
            }
            Arity::Fixed(_) => {
                for x in &g2 {
                    for y in &g2 {
                        out.push(format!("{}({},{})", name, x, y));
                    }
                }
            }
            _ => {}
        }
    }
    if ev.has_factorial() {
        for x in grid_fact(ev) {
            out.push(format!("{}!", x));
        }
    }
    if ev.has_deg_rad() {
        for x in &g1 {
            out.push(format!("{}°", x));
            out.push(format!("{}rad", x));
        }
    }
    if ev.has_consts() {
        for c in ["pi", "π", "e", "2*pi", "e^2", "pi/2", "π*π"] {
            out.push(c.to_string());
        }
    }
    if ev.has_floor_brackets() {
        for x in &g1 {
            out.push(format!("⌊{}⌋", x));
            out.push(format!("⌈{}⌉", x));
        }
    }
    // rounding ties and exact functions on half-integers
    if ev.has_point() && ev != Ev::Cpx {
        for t in ["0.5", "1.5", "2.5", "3.5", "(-0.5)", "(-1.5)", "(-2.5)", "(-3.5)", "2.4999999", "2.5000001", "4503599627370496.5"] {
            for f in ["round", "floor", "ceil", "trunc", "truncate", "abs", "sgn", "sign", "signum"] {
                out.push(format!("{}({})", f, t));
            }
        }
    }
    out
}

fn c10_dom<D: Dom>(cx: &RunCtx) {
    let kinds = [Kind::Value, Kind::WellFormedErr, Kind::MustErrOk];
    let _ = DENSER.set(cx.tier == Tier::Thorough);
    let inputs = c10_inputs(D::EV, true);
    run_list::<D>(cx, "E-FUNC name x argument grid", &inputs, &[D::default_at()], &kinds);
}

pub fn c10(cx: &RunCtx) {
    cx.assume("oracles: the host math library for the elementary functions (this checks the name -> function mapping, argument order, aliases and constants), libm tgamma for x!, the defining identity w*e^w = x for Lambert W, exact integer / half-even rules for the exact functions");
    cx.assume("decimal functions are compared with the double-precision function of the argument at 1e-9 relative, only where the result lies in [1e-18, 7e28]; ilog, aggregates and gcd/lcm are not part of C10");
    c10_dom::<F64>(cx);
    c10_dom::<I64>(cx);
    c10_dom::<Dec>(cx);
    c10_dom::<Cpx>(cx);
    c10_dom::<Num>(cx);
    // every name at the branch points, poles and range limits of any function (literal, constant-expression
    // and placeholder spellings of the same argument)
    crate::fam::critical_all(cx, &[Kind::Value, Kind::WellFormedErr, Kind::MustErrOk]);
    crate::fam::special_integers_all(cx, &[Kind::Value, Kind::WellFormedErr, Kind::MustErrOk]);
}

// ---------------------------------------------------------------- C11

fn lists(pool: &[&str], min_len: usize, max_len: usize, out: &mut Vec<Vec<String>>) {
    fn rec(pool: &[&str], len: usize, cur: &mut Vec<String>, out: &mut Vec<Vec<String>>) {
        if cur.len() == len {
            out.push(cur.clone());
            return;
        }
        for p in pool {
            cur.push(p.to_string());
            rec(pool, len, cur, out);
            cur.pop();
        }
    }
    for l in min_len..=max_len {
        rec(pool, l, &mut Vec::new(), out);
    }
}

fn gcd_usize(a: usize, b: usize) -> usize {
    if b == 0 {
        a
    } else {
        gcd_usize(b, a % b)
    }
}

pub fn c11_inputs(ev: Ev, thorough: bool) -> Vec<String> {
    let frac = ev.has_point();
    let pool6: Vec<&str> = if frac {
        vec!["(-3)", "(-1)", "0", "2", "5", "0.5"]
    } else {
        vec!["(-3)", "(-1)", "0", "2", "5", "12"]
    };
    let pool3: Vec<&str> = if frac { vec!["(-1)", "2", "0.5"] } else { vec!["(-4)", "6", "9"] };
    let mut ls: Vec<Vec<String>> = Vec::new();
    // every sequence (with repetition: all permutations of every multiset) of length 1..4 over 6 values,
    // every sequence of length 5..8 over 3 values
    lists(&pool6, 1, 4, &mut ls);
    lists(&pool3, 5, 8, &mut ls);
    // length 5 over 4 values: all permutations of every multiset of length 5
    let pool4: Vec<&str> = pool6[..4].to_vec();
    lists(&pool4, 5, 5, &mut ls);
    if frac {
        // whole values next to fractional ones of either sign (an integer and the fraction that truncates
        // or rounds to it; the same value written as an integer and with a point): every sequence of length 1..4
        let near: Vec<&str> = vec!["(-3)", "(-2.5)", "(-2)", "(-2.0)", "(-0.5)", "0", "0.5", "2", "2.5", "3"];
        lists(&near, 1, 4, &mut ls);
        if thorough {
            lists(&near, 5, 5, &mut ls);
        }
    }
    if thorough {
        // length 5 and 6 over all 6 values, 9 and 10 over 3 values, 6 and 7 over 4 values
        lists(&pool6, 5, 6, &mut ls);
        lists(&pool3, 9, 10, &mut ls);
        lists(&pool4, 6, 7, &mut ls);
    }
    if ev == Ev::I64 || ev == Ev::Num {
        // the ends of the range in every position: every sequence of length 1..3 (4 in the thorough tier)
        let ends: Vec<&str> = vec!["(-9223372036854775807-1)", "9223372036854775807", "(-9223372036854775807)", "4611686018427387904", "0", "2", "(-1)", "6"];
        lists(&ends, 1, if thorough { 4 } else { 3 }, &mut ls);
    }
    if ev == Ev::Num {
        // Integers beyond 2^53 next to the Floats they round to (and to their neighbours), at 2^53 and at 2^63: the
        // order of the exact values, whatever the order of the arguments
        let mixed: Vec<&str> = vec![
            "9007199254740992.0", "9007199254740993", "9007199254740994.0", "9007199254740992", "(-9007199254740993)", "(-9007199254740992.0)",
            "9223372036854775807", "9223372036854775808.0", "9223372036854774784.0", "(-9223372036854775807-1)", "(-9223372036854775808.0)",
        ];
        lists(&mixed, 2, if thorough { 4 } else { 3 }, &mut ls);
    }
    let mut names: Vec<&str> = vec!["min", "max", "avg", "med", "median"];
    if ev == Ev::I64 {
        names.push("gcd");
        names.push("lcm");
    }
    let mut out = Vec::new();
    for n in &names {
        out.push(format!("{}()", n));
        for l in &ls {
            out.push(format!("{}({})", n, l.join(",")));
        }
        // one failing argument at every position of a 3-list
        let bad = if ev == Ev::I64 { "(1/0)" } else if ev == Ev::Dec { "(1/0)" } else { "w(-1)" };
        for pos in 0..3 {
            let mut a = vec!["1".to_string(), "2".to_string(), "3".to_string()];
            a[pos] = bad.to_string();
            out.push(format!("{}({})", n, a.join(",")));
        }
        out.push(format!("{}({})", n, bad));
        // argument expressions, nesting
        out.push(format!("{}(1+2,3*4,2^3)", n));
        out.push(format!("{}({}(1,2),{}(3,4))", n, n, n));
    }
    // long lists (9..26, 32, 33 distinct values) in a finite family of structured orders: identity, reverse,
    // every rotation, every adjacent transposition, every "one element moved to the front", every stride
    // permutation, interleave and organ-pipe — order independence beyond the lengths whose permutations
    // can be enumerated completely
    let agg_names: Vec<&str> = if ev == Ev::I64 { vec!["min", "max", "avg", "med", "median", "gcd", "lcm"] } else { vec!["min", "max", "avg", "med", "median"] };
    for n in (9usize..=26).chain([32usize, 33]) {
        let base: Vec<i64> = (1..=n as i64).map(|i| i * 3 - 20).collect();
        let mut perms: Vec<Vec<i64>> = Vec::new();
        perms.push(base.clone());
        perms.push(base.iter().rev().cloned().collect());
        for r in 1..n {
            let mut p = base.clone();
            p.rotate_left(r);
            perms.push(p);
        }
        for i in 0..n - 1 {
            let mut p = base.clone();
            p.swap(i, i + 1);
            perms.push(p);
            let mut q = base.clone();
            let x = q.remove(i + 1);
            q.insert(0, x);
            perms.push(q);
        }
        for k in 2..n {
            if gcd_usize(k, n) == 1 {
                perms.push((0..n).map(|i| base[(i * k) % n]).collect());
            }
        }
        let mut inter: Vec<i64> = Vec::new();
        let (mut lo, mut hi) = (0usize, n - 1);
        while lo <= hi {
            inter.push(base[lo]);
            if lo != hi {
                inter.push(base[hi]);
            }
            lo += 1;
            if hi == 0 {
                break;
            }
            hi -= 1;
        }
        perms.push(inter.clone());
        let mut organ: Vec<i64> = base.iter().step_by(2).cloned().collect();
        organ.extend(base.iter().skip(1).step_by(2).rev().cloned());
        perms.push(organ);
        for p in &perms {
            let args = p.iter().map(|v| if *v < 0 { format!("(-{})", -v) } else { v.to_string() }).collect::<Vec<_>>().join(",");
            for name in &agg_names {
                if (*name == "lcm") && n > 12 {
                    continue;
                }
                let s = format!("{}({})", name, args);
                if s.chars().count() <= 256 {
                    out.push(s);
                }
            }
        }
    }
    // extreme magnitudes
    match ev {
        Ev::I64 => {
            for n in ["min", "max", "med", "avg"] {
                out.push(format!("{}(9223372036854775807,(-9223372036854775807-1))", n));
                out.push(format!("{}(9223372036854775807,9223372036854775807)", n));
                out.push(format!("{}((-9223372036854775807-1),(-9223372036854775807-1),1)", n));
            }
            out.push("gcd(0,0)".into());
            out.push("gcd(0,5)".into());
            out.push("lcm(0,5)".into());
            out.push("gcd(12,18,24)".into());
            out.push("lcm(4,6,10)".into());
            out.push("gcd((-12),18)".into());
            out.push("lcm((-4),6)".into());
            out.push("gcd(9223372036854775807,2)".into());
            out.push("lcm(3037000500,3037000501)".into());
            out.push("lcm(4294967296,4294967297)".into());
        }
        _ => {}
    }
    out
}

fn c11_dom<D: Dom>(cx: &RunCtx) {
    if !cx.wants(D::EV.name()) {
        return;
    }
    let kinds = [Kind::Value, Kind::WellFormedErr, Kind::MustErrOk, Kind::MalformedOk];
    let inputs = c11_inputs(D::EV, cx.tier == Tier::Thorough);
    run_list::<D>(cx, "E-AGG argument lists x permutations", &inputs, &[D::default_at()], &kinds);
    // the placeholder (every value of the critical pool, incl. the ends of the range: sums that overflow although
    // the mean does not) in every position of lists of length 1..3
    {
        let mut ls: Vec<Vec<String>> = Vec::new();
        lists(&["@", "2", "(-1)"], 1, 3, &mut ls);
        let mut names: Vec<&str> = vec!["min", "max", "avg", "med", "median"];
        if D::EV == Ev::I64 {
            names.push("gcd");
            names.push("lcm");
        }
        let mut at_inputs: Vec<String> = Vec::new();
        for n in &names {
            for l in &ls {
                if l.iter().any(|x| x == "@") {
                    at_inputs.push(format!("{}({})", n, l.join(",")));
                }
            }
        }
        run_list::<D>(cx, "E-AGG argument lists with the placeholder x critical pool", &at_inputs, &D::pool_critical(), &kinds);
        if D::EV == Ev::I64 {
            let fl = refmodel::families::fibonacci_gcd();
            let fib_at: Vec<D::V> = D::pool_critical().into_iter().take(6).collect();
            run_list::<D>(cx, "E-AGG gcd / lcm over neighbouring Fibonacci numbers (longest Euclid runs)", &fl, &fib_at, &kinds);
        }
    }
    // relation through the API alone: an argument that fails on its own makes the aggregate fail
    let mut st = crate::report::Stats::default();
    let at = D::default_at();
    let bads: Vec<&str> = match D::EV {
        Ev::I64 => vec!["1/0", "9223372036854775807+1", "5%0", "(-1)!!"],
        Ev::Dec => vec!["1/0", "ln(0)", "w(-1)", "79228162514264337593543950335*2"],
        _ => vec!["w(-1)", "lambert_w(-7)"],
    };
    // the other arguments: 1, 2, 3, … and, in turn, the values at which an early exit is tempting (0 for lcm, 1 for gcd,
    // the ends of the range for min / max): an aggregate that stops evaluating after such a value would swallow the
    // failure of a later argument
    let mut fills: Vec<&str> = vec!["", "0", "1", "(-1)"];
    match D::EV {
        Ev::I64 => fills.extend(["9223372036854775807", "(-9223372036854775807-1)"]),
        Ev::Dec => fills.extend(["79228162514264337593543950335", "(-79228162514264337593543950335)"]),
        _ => fills.extend(["(1/0)", "(-1/0)", "(0/0)"]),
    }
    let mut names: Vec<&str> = vec!["min", "max", "avg", "med", "median"];
    if D::EV == Ev::I64 {
        names.push("gcd");
        names.push("lcm");
    }
    for bad in bads {
        let alone = crate::sut::run::<D>(bad, &at);
        if !alone.out.is_err() {
            st.bump("failing-argument-did-not-fail-alone", 1);
            continue;
        }
        for n in &names {
          for fill in &fills {
            for len in 1..=4usize {
                for pos in 0..len {
                    let mut a: Vec<String> = (1..=len).map(|i| if fill.is_empty() { i.to_string() } else { fill.to_string() }).collect();
                    a[pos] = bad.to_string();
                    let s = format!("{}({})", n, a.join(","));
                    let r = crate::sut::run::<D>(&s, &at);
                    st.nodes += 1;
                    st.transitions += 1;
                    st.executions += 1;
                    st.relations += 1;
                    if let crate::sut::Out::Ok(v) = &r.out {
                        cx.rec.add(crate::etok::make_violation::<D>(
                            "E-AGG failing argument",
                            &s,
                            &at,
                            crate::etok::Outcome1 {
                                kind: Kind::Relation,
                                expected: format!("Err, because the argument {:?} evaluates to Err on its own", bad),
                                observed: format!("Ok({})", D::show(v)),
                            },
                            false,
                        ));
                    }
                }
            }
          }
        }
    }
    cx.add_run(&st, serde_json::json!({"engine": "E-AGG failing argument at every position", "evaluator": D::EV.name(), "stats": st.to_json()}));
}

pub fn c11(cx: &RunCtx) {
    cx.assume("pool values are exactly representable, so sums are independent of the order of summation; the oracle is computed from the multiset (sort for the median, Euclid on i128 for gcd/lcm, i64 means truncated toward zero)");
    c11_dom::<F64>(cx);
    c11_dom::<I64>(cx);
    c11_dom::<Dec>(cx);
    c11_dom::<Num>(cx);
}
