//! C08: eval_complex against an independent implementation of the textbook / principal-branch
//! definitions (own pair arithmetic; exp, ln, atan2 based), plus real-only trees against eval_f64.
use crate::ctx::*;
use crate::dom::*;
use crate::etree::*;
use crate::report::*;
use crate::sut::*;
use num_complex::Complex;
use refmodel::parse::*;
use refmodel::vocab::Func;
use serde_json::json;

type P = (f64, f64);

fn ilit(t: &str) -> Node {
    nd(Expr::Lit {
        text: t.to_string(),
        imag: true,
    })
}

fn cleaf(re: f64, im: f64) -> Leaf<Cpx> {
    let a = format!("{}", re.abs());
    let b = format!("{}", im.abs());
    let rn = if re < 0.0 { neg(lit(&a)) } else { lit(&a) };
    let n = if im < 0.0 { bin(BinOp::Sub, rn, ilit(&b)) } else { bin(BinOp::Add, rn, ilit(&b)) };
    Leaf::of(paren(n))
}

pub fn generic_values() -> Vec<P> {
    vec![
        (1.0, 2.0),
        (0.5, -1.5),
        (-2.0, 0.75),
        (-0.25, -3.0),
        (3.0, 0.5),
        (0.3, -0.4),
        (-1.5, 2.5),
        (-7.0, -0.125),
        (0.1, 0.1),
        (2.25, -6.0),
        (-0.6, 0.8),
        (-4.0, -4.0),
        (8.0, 1.0),
        (1.0, -1.0),
        (-0.75, 0.3),
        (-0.2, -9.0),
    ]
}

pub fn real_values() -> Vec<&'static str> {
    vec!["0.5", "2", "3", "0.25", "7", "10", "1", "0.1", "1.5", "0.75", "0.9", "4"]
}

pub fn pool_cpx() -> Vec<Leaf<Cpx>> {
    let mut p: Vec<Leaf<Cpx>> = Vec::new();
    for (a, b) in generic_values() {
        p.push(cleaf(a, b));
    }
    for t in ["2", "0.5", "3"] {
        p.push(Leaf::of(lit(t)));
    }
    p.push(Leaf::of(ilit("2")));
    p.push(Leaf::of(ilit("0.5")));
    p.push(Leaf::of(nd(Expr::ImagUnit)));
    p.push(Leaf::of(neg(lit("2"))));
    p.push(Leaf::at(Complex::new(-1.25, 0.5)));
    p
}

// ---- independent definitions on pairs
fn add(a: P, b: P) -> P {
    (a.0 + b.0, a.1 + b.1)
}
fn sub(a: P, b: P) -> P {
    (a.0 - b.0, a.1 - b.1)
}
fn mul(a: P, b: P) -> P {
    (a.0 * b.0 - a.1 * b.1, a.0 * b.1 + a.1 * b.0)
}
fn div(a: P, b: P) -> P {
    // the textbook quotient on a divisor scaled by a power of two (exact) so that its squared modulus neither
    // overflows nor becomes subnormal; the scale is undone afterwards
    let m = b.0.abs().max(b.1.abs());
    if m == 0.0 || !m.is_finite() {
        let d = b.0 * b.0 + b.1 * b.1;
        return ((a.0 * b.0 + a.1 * b.1) / d, (a.1 * b.0 - a.0 * b.1) / d);
    }
    let k = m.log2().floor() as i32;
    let s = |x: f64| x * 2f64.powi(-(k / 2)) * 2f64.powi(-(k - k / 2));
    let (b0, b1) = (s(b.0), s(b.1));
    let d = b0 * b0 + b1 * b1;
    let q = ((a.0 * b0 + a.1 * b1) / d, (a.1 * b0 - a.0 * b1) / d);
    (s(q.0), s(q.1))
}
fn modulus(a: P) -> f64 {
    a.0.hypot(a.1)
}
fn cexp(a: P) -> P {
    let e = a.0.exp();
    (e * a.1.cos(), e * a.1.sin())
}
fn ln_modulus(a: P) -> f64 {
    refmodel::ev_cpx::ln_modulus(a.0, a.1)
}
fn cln(a: P) -> P {
    (ln_modulus(a), a.1.atan2(a.0))
}
fn cpow(a: P, b: P) -> P {
    cexp(mul(b, cln(a)))
}
fn csqrt(a: P) -> P {
    let m = modulus(a).sqrt();
    let t = a.1.atan2(a.0) / 2.0;
    (m * t.cos(), m * t.sin())
}
fn csin(a: P) -> P {
    (a.0.sin() * a.1.cosh(), a.0.cos() * a.1.sinh())
}
fn ccos(a: P) -> P {
    (a.0.cos() * a.1.cosh(), -a.0.sin() * a.1.sinh())
}
fn csinh(a: P) -> P {
    (a.0.sinh() * a.1.cos(), a.0.cosh() * a.1.sin())
}
fn ccosh(a: P) -> P {
    (a.0.cosh() * a.1.cos(), a.0.sinh() * a.1.sin())
}
const I: P = (0.0, 1.0);
const ONE: P = (1.0, 0.0);
fn casin(z: P) -> P {
    // -i ln(iz + sqrt(1 - z^2))
    let w = cln(add(mul(I, z), csqrt(sub(ONE, mul(z, z)))));
    mul((0.0, -1.0), w)
}
fn cacos(z: P) -> P {
    sub((std::f64::consts::FRAC_PI_2, 0.0), casin(z))
}
fn catan(z: P) -> P {
    // (i/2) (ln(1 - iz) - ln(1 + iz))
    let iz = mul(I, z);
    mul((0.0, 0.5), sub(cln(sub(ONE, iz)), cln(add(ONE, iz))))
}
fn casinh(z: P) -> P {
    cln(add(z, csqrt(add(mul(z, z), ONE))))
}
fn cacosh(z: P) -> P {
    cln(add(z, mul(csqrt(add(z, ONE)), csqrt(sub(z, ONE)))))
}
fn catanh(z: P) -> P {
    mul((0.5, 0.0), sub(cln(add(ONE, z)), cln(sub(ONE, z))))
}

/// value and relative tolerance (0 = exact); None = not decided here
fn eval_defs(n: &Node, at: P) -> Option<(P, f64)> {
    let exact = |n: &Node| -> Option<P> {
        match eval_defs(n, at) {
            Some((v, t)) if t == 0.0 => Some(v),
            _ => None,
        }
    };
    match &n.e {
        Expr::Lit { text, imag } => {
            let v: f64 = text.parse().ok()?;
            Some((if *imag { (0.0, v) } else { (v, 0.0) }, 0.0))
        }
        Expr::ImagUnit => Some((I, 0.0)),
        Expr::At => Some((at, 0.0)),
        Expr::Pi => Some(((std::f64::consts::PI, 0.0), 0.0)),
        Expr::E => Some(((std::f64::consts::E, 0.0), 0.0)),
        Expr::Neg(x) => exact(x).map(|v| ((-v.0, -v.1), 0.0)),
        Expr::Pos(x) => eval_defs(x, at),
        Expr::Group(GroupKind::Paren, x) => eval_defs(x, at),
        Expr::Sup(x, d) => {
            let a = exact(x)?;
            let e: f64 = d.parse().ok()?;
            Some((cpow(a, (e, 0.0)), 1e-9))
        }
        Expr::Post(p, x) => {
            let a = exact(x)?;
            match p {
                PostOp::Deg => Some((mul(a, (std::f64::consts::PI / 180.0, 0.0)), 1e-9)),
                PostOp::Rad => Some((mul(a, (180.0 / std::f64::consts::PI, 0.0)), 1e-9)),
                _ => None,
            }
        }
        Expr::Bin(b, l, r) => {
            let a = exact(l)?;
            let c = exact(r)?;
            Some(match b {
                BinOp::Add => (add(a, c), 0.0),
                BinOp::Sub => (sub(a, c), 0.0),
                BinOp::Mul | BinOp::Impl => (mul(a, c), 0.0),
                BinOp::Div => (div(a, c), 1e-12),
                BinOp::Pow => (cpow(a, c), 1e-9),
                _ => return None,
            })
        }
        Expr::Call(f, args) => {
            let z = exact(&args[0])?;
            use Func::*;
            Some(match f {
                Abs => ((modulus(z), 0.0), 1e-12),
                Pow => (cpow(z, exact(&args[1])?), 1e-9),
                Root => (cpow(exact(&args[1])?, div(ONE, z)), 1e-9),
                Log => (div(cln(z), cln(exact(&args[1])?)), 1e-9),
                Sqrt => (csqrt(z), 1e-9),
                Exp => (cexp(z), 1e-9),
                Exp2 => (cexp(mul(z, (std::f64::consts::LN_2, 0.0))), 1e-9),
                Ln => (cln(z), 1e-9),
                Lb => (div(cln(z), (std::f64::consts::LN_2, 0.0)), 1e-9),
                Sin => (csin(z), 1e-9),
                Cos => (ccos(z), 1e-9),
                Tan => (div(csin(z), ccos(z)), 1e-9),
                Sinh => (csinh(z), 1e-9),
                Cosh => (ccosh(z), 1e-9),
                Tanh => (div(csinh(z), ccosh(z)), 1e-9),
                Asin => (casin(z), 1e-9),
                Acos => (cacos(z), 1e-9),
                Atan => (catan(z), 1e-9),
                Asinh => (casinh(z), 1e-9),
                Acosh => (cacosh(z), 1e-9),
                Atanh => (catanh(z), 1e-9),
                _ => return None,
            })
        }
        _ => None,
    }
}

fn judge_defs(n: &Node, at: &Complex<f64>, got: Option<&Complex<f64>>) -> Judge {
    // where the statements leave the outcome open (branch cuts, zero bases) nothing is demanded
    let spec = refmodel::ev_cpx::eval(n, *at);
    if let refmodel::rv::RV::Unspec(r) = spec {
        return Judge::Skip(r);
    }
    match eval_defs(n, (at.re, at.im)) {
        None => Judge::Skip("value not compared"),
        Some((w, tol)) => {
            if !(w.0.is_finite() && w.1.is_finite()) && tol != 0.0 {
                return Judge::Skip("U3: non-finite complex result");
            }
            match got {
                None => Judge::Bad(Kind::WellFormedErr, format!("Ok({:?}+{:?}i)", w.0, w.1)),
                Some(g) => {
                    let ok = if tol == 0.0 {
                        // + - * and negation: the component formulas exactly — the same double in each
                        // component, signed zeros, infinities and NaN (as a class) included
                        let same = |a: f64, b: f64| a.to_bits() == b.to_bits() || (a.is_nan() && b.is_nan());
                        same(g.re, w.0) && same(g.im, w.1)
                    } else {
                        let m = modulus(w);
                        modulus((g.re - w.0, g.im - w.1)) <= tol * m
                    };
                    if ok {
                        Judge::Agree
                    } else {
                        Judge::Bad(
                            Kind::Value,
                            format!("Ok({:?}+{:?}i) {}", w.0, w.1, if tol == 0.0 { "exactly".to_string() } else { format!("within {:e} relative", tol) }),
                        )
                    }
                }
            }
        }
    }
}

fn all_funcs1() -> Vec<Func> {
    use Func::*;
    vec![Abs, Sqrt, Exp, Exp2, Ln, Lb, Sin, Cos, Tan, Sinh, Cosh, Tanh, Asin, Acos, Atan, Asinh, Acosh, Atanh]
}

pub fn c08(cx: &RunCtx) {
    cx.assume("independent oracle: own pair arithmetic and exp/ln/atan2-based principal-branch definitions; operands are kept off the branch cuts by construction and by the reference's cut test");
    cx.assume("tolerance checks are depth 1 on purpose; depth 2 covers the exact operations (+ - * and negation) only");
    if !cx.wants("complex") {
        return;
    }
    let kinds = [Kind::Value, Kind::WellFormedErr, Kind::MustErrOk];
    crate::fam::sign_runs::<Cpx>(cx, &kinds);
    crate::fam::idioms::<Cpx>(cx, &kinds);
    use BinOp::*;
    let mut bins: Vec<BinKind> = [Add, Sub, Mul, Div, Pow].iter().map(|b| BinKind::Op(*b)).collect();
    bins.push(BinKind::Call(Func::Pow));
    bins.push(BinKind::Call(Func::Root));
    bins.push(BinKind::Call(Func::Log));
    let mut uns: Vec<UnOp> = vec![UnOp::Neg, UnOp::Sup2, UnOp::Deg, UnOp::Rad];
    for f in all_funcs1() {
        uns.push(UnOp::Call(f));
    }
    let cfg = TreeCfg::<Cpx> {
        engine: "E-TREE complex vs own principal-branch definitions".into(),
        bins,
        uns,
        pool: pool_cpx(),
        pool3: vec![],
        depth: 2,
        kinds: &kinds,
        judge: Some(&judge_defs),
        on_ok: None,
        family: None,
    };
    let (st, desc) = explore_trees::<Cpx>(&cfg, &cx.rec);
    eprintln!("[C08] trees {} compared {} viol {}", st.nodes, st.compared, cx.rec.total());
    cx.add_run(&st, desc);

    // the exact operations once more, depth 2, with the special components that only a placeholder can carry
    // (infinities, NaN, negative zeros, subnormals, MAX) and the literal leaves
    let mut special = pool_cpx();
    for v in Cpx::pool_full() {
        special.push(Leaf::at(v));
    }
    let cfg_x = TreeCfg::<Cpx> {
        engine: "E-TREE complex + - * and negation over special components (exact)".into(),
        bins: [Add, Sub, Mul].iter().map(|b| BinKind::Op(*b)).collect(),
        uns: vec![UnOp::Neg],
        pool: special,
        pool3: vec![],
        depth: 2,
        kinds: &kinds,
        judge: Some(&judge_defs),
        on_ok: None,
        family: None,
    };
    let (st, desc) = explore_trees::<Cpx>(&cfg_x, &cx.rec);
    eprintln!("[C08] exact-operation trees {} compared {} viol {}", st.nodes, st.compared, cx.rec.total());
    cx.add_run(&st, desc);

    // depth 1 over a dense grid of operands off the axes (every quadrant, inside and outside the unit circle,
    // next to the cuts but not on them): k/2 + (l/2)i with |k|, |l| <= 6 (quick) or k/4, |k| <= 16 (thorough),
    // shifted by 1/8 so that no component is zero or +-1
    let (n, div) = if cx.tier == Tier::Quick { (6i32, 2.0) } else { (16i32, 4.0) };
    let mut grid: Vec<Leaf<Cpx>> = Vec::new();
    for k in -n..=n {
        for l in -n..=n {
            grid.push(cleaf(k as f64 / div + 0.125, l as f64 / div - 0.125));
        }
    }
    // … and operands on and next to the unit circle, where |z| rounds to 1 and the real part of a logarithm is all in
    // the digits that rounding drops (1 + 1e-8 i, 0.6 + 0.8 i and its neighbours)
    for e in [1e-3, 1e-5, 1e-7, 1e-8, 1e-9, 1e-12] {
        for (re, im) in [(1.0, e), (1.0, -e), (e, 1.0), (e, -1.0), (1.0 + e, e), (1.0 - e, e), (0.6 + e, 0.8), (0.6, 0.8 - e), (-0.8, 0.6 + e)] {
            grid.push(cleaf(re, im));
        }
    }
    // a logarithm whose own modulus is far below 1e-154 (its square underflows in a textbook division)
    for e in [1e-100, 1e-160, 1e-200] {
        grid.push(cleaf(1.0, e));
        grid.push(cleaf(1.0, -e));
    }
    grid.push(cleaf(0.6, 0.8));
    grid.push(cleaf(0.8, -0.6));
    grid.push(cleaf(-0.28, 0.96));
    // the pairs are taken against a small second list, not the full square of the grid
    let mut uns2: Vec<UnOp> = vec![UnOp::Neg, UnOp::Sup2, UnOp::Deg, UnOp::Rad];
    for f in all_funcs1() {
        uns2.push(UnOp::Call(f));
    }
    let cfg_u = TreeCfg::<Cpx> {
        engine: "E-TREE complex one-argument functions over a dense off-axis grid".into(),
        bins: vec![],
        uns: uns2,
        pool: grid.clone(),
        pool3: vec![],
        depth: 1,
        kinds: &kinds,
        judge: Some(&judge_defs),
        on_ok: None,
        family: None,
    };
    let (st, desc) = explore_trees::<Cpx>(&cfg_u, &cx.rec);
    eprintln!("[C08] grid trees {} compared {} viol {}", st.nodes, st.compared, cx.rec.total());
    cx.add_run(&st, desc);
    let step = if cx.tier == Tier::Quick { 3 } else { 2 };
    let sub: Vec<Leaf<Cpx>> = grid.iter().step_by(step).cloned().collect();
    let mut bins2: Vec<BinKind> = [Add, Sub, Mul, Div, Pow].iter().map(|b| BinKind::Op(*b)).collect();
    bins2.push(BinKind::Call(Func::Pow));
    bins2.push(BinKind::Call(Func::Root));
    bins2.push(BinKind::Call(Func::Log));
    let cfg_b = TreeCfg::<Cpx> {
        engine: "E-TREE complex binary operations over a sub-grid (all ordered pairs)".into(),
        bins: bins2,
        uns: vec![],
        pool: sub,
        pool3: vec![],
        depth: 1,
        kinds: &kinds,
        judge: Some(&judge_defs),
        on_ok: None,
        family: None,
    };
    let (st, desc) = explore_trees::<Cpx>(&cfg_b, &cx.rec);
    eprintln!("[C08] sub-grid pair trees {} compared {} viol {}", st.nodes, st.compared, cx.rec.total());
    cx.add_run(&st, desc);

    real_vs_complex(cx);

    // lexical part: imaginary literals, bare i, pi vs p+i
    crate::checks::tok_run::<Cpx>(
        cx,
        "E-TOK Σ_full(complex) lexical",
        crate::alpha::sigma_full(refmodel::vocab::Ev::Cpx),
        if cx.tier == Tier::Quick { 3 } else { 4 },
        3,
        crate::checks::ONLY_DEFAULT,
        &[Kind::Value, Kind::MalformedOk, Kind::WellFormedErr],
        None,
        2400,
    );
}

/// real operands inside the real domain: eval_complex agrees with eval_f64 within 1e-9 relative,
/// imaginary part below 1e-9 of the modulus
pub fn real_vs_complex(cx: &RunCtx) {
    // real operands inside the real domain: agree with eval_f64 within 1e-9, imaginary part below 1e-9 of the modulus
    let mut st = Stats::default();
    let reals = real_values();
    let mut inputs: Vec<String> = Vec::new();
    let names1 = ["abs", "sqrt", "exp", "exp2", "ln", "lb", "sin", "cos", "tan", "sinh", "cosh", "tanh", "asin", "acos", "atan", "asinh", "arsinh", "acosh", "arcosh", "atanh", "artanh"];
    for n in names1 {
        for x in &reals {
            inputs.push(format!("{}({})", n, x));
            inputs.push(format!("{}(-{})", n, x));
        }
    }
    // extreme magnitudes (where a formula that squares or inverts its argument leaves the double range) and
    // operands next to the edges of the real domains, as literals
    let mut ext: Vec<String> = Vec::new();
    for n in [20usize, 100, 153, 154, 155, 160, 170, 200, 250, 300, 305, 307, 308] {
        ext.push(format!("1{}", "0".repeat(n)));
        ext.push(format!("0.{}1", "0".repeat(n - 1)));
    }
    // the topmost binade (where 2x overflows), the largest double, and the subnormals
    ext.push(format!("9{}", "0".repeat(307)));
    ext.push(format!("17976931348623157{}", "0".repeat(292)));
    ext.push(format!("0.{}1", "0".repeat(309)));
    ext.push(format!("0.{}1", "0".repeat(319)));
    ext.push(format!("0.{}5", "0".repeat(323)));
    for t in [
        "1.0000001", "0.9999999", "1.000000001", "0.999999999", "1.0000000000001", "0.9999999999999", "100", "700", "709", "710", "1000", "1000000", "0.000001", "0.001", "20", "30", "37", "50",
        "1.5707963267948966", "3.141592653589793", "6.283185307179586", "2.718281828459045",
    ] {
        ext.push(t.to_string());
    }
    for n in names1 {
        for x in &ext {
            inputs.push(format!("{}({})", n, x));
            inputs.push(format!("{}(-{})", n, x));
        }
        // c +- m*10^-j around -1/e, -1, 0, 0.5, 1, 2: the thin bands next to the edges of the real domains
        for x in refmodel::families::neighbourhoods() {
            inputs.push(format!("{}({})", n, x));
        }
    }
    for x in &ext {
        for o in ["+", "-", "*", "/", "^"] {
            for y in ["2", "0.5", "3"] {
                inputs.push(format!("{}{}{}", x, o, y));
                inputs.push(format!("{}{}{}", y, o, x));
            }
        }
        for n in ["pow", "root", "log"] {
            for y in ["2", "0.5", "3", "10"] {
                inputs.push(format!("{}({},{})", n, x, y));
                inputs.push(format!("{}({},{})", n, y, x));
            }
        }
        inputs.push(format!("{}°", x));
        inputs.push(format!("{}rad", x));
        inputs.push(format!("{}²", x));
    }
    for n in ["pow", "root", "log"] {
        for x in &reals {
            for y in &reals {
                inputs.push(format!("{}({},{})", n, x, y));
            }
        }
    }
    for o in ["+", "-", "*", "/", "^"] {
        for x in &reals {
            for y in &reals {
                inputs.push(format!("{}{}{}", x, o, y));
                inputs.push(format!("{}{}(-{})", x, o, y));
                inputs.push(format!("(-{}){}{}", x, o, y));
            }
        }
    }
    for x in &reals {
        inputs.push(format!("{}°", x));
        inputs.push(format!("{}rad", x));
        inputs.push(format!("{}²", x));
        inputs.push(format!("-{}", x));
    }
    for s in &inputs {
        let rf = run::<F64>(s, &0.0);
        let rc = run::<Cpx>(s, &Complex::new(0.0, 0.0));
        st.nodes += 1;
        st.transitions += 1;
        st.executions += 2;
        let x = match &rf.out {
            Out::Ok(v) if v.is_finite() => *v,
            _ => {
                st.unspecified += 1;
                continue;
            }
        };
        // inside the real domain: the f64 result is finite; arguments on a complex branch cut
        // (negative reals under sqrt/ln/pow ...) give the same finite value only when f64 is not NaN
        st.relations += 1;
        match &rc.out {
            Out::Ok(z) => {
                st.relations_both_ok += 1;
                let m = z.norm();
                let ok = (z.re - x).abs() <= 1e-9 * x.abs().max(1e-300) && z.im.abs() <= 1e-9 * m.max(1e-300);
                if !ok {
                    cx.rec.add(crate::etok::make_violation::<Cpx>(
                        "E-REAL complex vs eval_f64",
                        s,
                        &Complex::new(0.0, 0.0),
                        crate::etok::Outcome1 {
                            kind: Kind::Relation,
                            expected: format!("eval_f64's value {:?} within 1e-9 relative, |Im| <= 1e-9 |z|", x),
                            observed: format!("Ok({:?}+{:?}i)", z.re, z.im),
                        },
                        false,
                    ));
                }
            }
            other => {
                cx.rec.add(crate::etok::make_violation::<Cpx>(
                    "E-REAL complex vs eval_f64",
                    s,
                    &Complex::new(0.0, 0.0),
                    crate::etok::Outcome1 {
                        kind: Kind::Relation,
                        expected: format!("eval_f64's value {:?} within 1e-9 relative", x),
                        observed: other.tag().to_string(),
                    },
                    false,
                ));
            }
        }
    }
    st.samples.push(json!({"real_operand_input": inputs[7]}));
    cx.add_run(&st, json!({"engine": "E-REAL real operands: eval_complex vs eval_f64", "inputs": inputs.len(), "stats": st.to_json()}));
}
