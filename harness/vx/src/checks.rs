//! The property checks: which engines run, over which alphabets and bounds, and which kinds count.
use crate::alpha::*;
use crate::ctx::*;
use crate::dom::*;
use crate::etok::*;
use refmodel::vocab::Ev;

/// pass as `full_pool_depth` to evaluate `@` with the default placeholder (7) only
pub const ONLY_DEFAULT: usize = usize::MAX;

pub struct TokPlan {
    pub class_depth: usize,
    pub full_depth: usize,
    pub unpruned: usize,
    pub shallow_pool_depth: usize,
    pub cap_s: u64,
}

pub fn tok_run<D: Dom>(
    cx: &RunCtx,
    engine: &str,
    alphabet: Vec<String>,
    depth: usize,
    unpruned: usize,
    full_pool_depth: usize,
    kinds: &[Kind],
    extra: Option<Extra<D>>,
    cap_s: u64,
) {
    if !cx.wants(D::EV.name()) || depth == 0 {
        return;
    }
    let cfg = TokCfg::<D> {
        engine: engine.to_string(),
        alphabet,
        depth,
        unpruned_depth: unpruned,
        pool_shallow: D::pool_full(),
        shallow_depth: if full_pool_depth == ONLY_DEFAULT { 0 } else { full_pool_depth },
        pool_deep: if full_pool_depth == ONLY_DEFAULT { vec![D::default_at()] } else { D::pool_small() },
        kinds,
        extra,
        deadline: Some(cx.deadline(cap_s)),
    };
    let (st, desc) = explore::<D>(&cfg, &cx.rec);
    eprintln!(
        "[{}] {} {}: depth {} nodes {} exec {} closed {} viol-so-far {} ({:.1}s)",
        cx.prop,
        engine,
        D::EV.name(),
        depth,
        st.nodes,
        st.executions,
        st.closed,
        cx.rec.total(),
        cx.t0.elapsed().as_secs_f64()
    );
    cx.add_run(&st, desc);
}

/// E-TOK over Σ_class with *every* function name and alias of the evaluator in turn as the only function
/// token (with and without its bracket): what the per-name families enumerate by hand, exhaustively to `depth`
pub fn tok_rotating<D: Dom>(cx: &RunCtx, depth: usize, kinds: &[Kind]) {
    tok_rotating_with::<D>(cx, depth, kinds, None, false)
}

/// `full_pool`: evaluate strings containing `@` with every placeholder of the full pool (else the default one)
pub fn tok_rotating_with<D: Dom>(cx: &RunCtx, depth: usize, kinds: &[Kind], extra: Option<Extra<D>>, full_pool: bool) {
    if !cx.wants(D::EV.name()) {
        return;
    }
    let t0 = std::time::Instant::now();
    let mut total = crate::report::Stats::default();
    let mut names: Vec<&str> = Vec::new();
    for (n, _) in refmodel::vocab::func_names(D::EV) {
        if !names.contains(n) {
            names.push(n);
        }
    }
    for n in &names {
        let cfg = TokCfg::<D> {
            engine: "E-TOK Σ_class with every function name in turn".to_string(),
            alphabet: sigma_class_with(D::EV, n),
            depth,
            unpruned_depth: 9,
            pool_shallow: if full_pool { D::pool_full() } else { vec![D::default_at()] },
            shallow_depth: if full_pool { depth } else { 0 },
            pool_deep: vec![D::default_at()],
            kinds,
            extra,
            deadline: Some(cx.deadline(2400)),
        };
        let (st, _) = explore::<D>(&cfg, &cx.rec);
        total.merge(&st);
    }
    eprintln!("[{}] E-TOK rotating names {}: {} names, depth {}, nodes {} ({:.1}s)", cx.prop, D::EV.name(), names.len(), depth, total.nodes, t0.elapsed().as_secs_f64());
    cx.add_run(
        &total,
        serde_json::json!({"engine": "E-TOK Σ_class with every function name and alias in turn as the only function token (with and without its bracket)",
            "evaluator": D::EV.name(), "names": names.len(), "depth": depth, "wall_s": t0.elapsed().as_secs_f64(), "stats": total.to_json()}),
    );
}

macro_rules! for_each_dom {
    ($f:ident, $($args:expr),*) => {{
        $f::<F64>($($args),*);
        $f::<I64>($($args),*);
        $f::<Dec>($($args),*);
        $f::<Cpx>($($args),*);
        $f::<Num>($($args),*);
    }};
}

fn quick(cx: &RunCtx) -> bool {
    cx.tier == Tier::Quick
}

// ---------------------------------------------------------------- C01
fn c01_dom<D: Dom>(cx: &RunCtx) {
    let k = [Kind::Panic];
    let (cd, fd, chr) = if quick(cx) { (4, 3, 3) } else { (6, 4, 4) };
    tok_run::<D>(cx, "E-TOK Σ_class+foreign", sigma_class(D::EV), cd, 4, 3, &k, None, 2400);
    tok_run::<D>(cx, "E-TOK Σ_full+foreign", sigma_full(D::EV), fd, 3, 2, &k, None, 2400);
    tok_run::<D>(cx, "E-TOK Σ_loops", sigma_loops(D::EV), if quick(cx) { 4 } else { 5 }, 4, 3, &k, None, 2400);
    tok_run::<D>(cx, "E-CHR", sigma_chars(D::EV), chr, 9, 1, &k, None, 2400);
}
pub fn c01(cx: &RunCtx) {
    cx.assume("panics are observed through catch_unwind at the public eval_* entry points; aborts (stack overflow, allocation failure) would kill the worker and surface as a machinery failure, not as a pass");
    cx.assume("inputs longer than the explored depth are reached only through the finite pumped families");
    for_each_dom!(c01_dom, cx);
    crate::fam::pumping_all(cx, &[Kind::Panic]);
    crate::fam::critical_all(cx, &[Kind::Panic]);
    crate::fam::special_integers_all(cx, &[Kind::Panic]);
    crate::fam::plausible_names_all(cx, &[Kind::Panic]);
    crate::fam::big_integers_all(cx, &[Kind::Panic]);
    crate::fam::nested_slips_all(cx, &[Kind::Panic]);
    crate::fam::foreign_all(cx, &[Kind::Panic]);
    {
        let d = if quick(cx) { 4 } else { 5 };
        tok_rotating::<F64>(cx, d, &[Kind::Panic]);
        tok_rotating::<I64>(cx, d, &[Kind::Panic]);
        tok_rotating::<Dec>(cx, d, &[Kind::Panic]);
        tok_rotating::<Cpx>(cx, d, &[Kind::Panic]);
        tok_rotating::<Num>(cx, d, &[Kind::Panic]);
    }
    crate::tchecks::all_ops_trees(cx, &[Kind::Panic]);
}

// ---------------------------------------------------------------- C02
fn c02_dom<D: Dom>(cx: &RunCtx) {
    let k = [Kind::Budget];
    let d = if quick(cx) { 4 } else { 6 };
    tok_run::<D>(cx, "E-TOK Σ_loops", sigma_loops(D::EV), d, 4, 4, &k, None, 2400);
    tok_run::<D>(cx, "E-TOK Σ_class+foreign", sigma_class(D::EV), if quick(cx) { 3 } else { 5 }, 4, 3, &k, None, 2400);
}
pub fn c02(cx: &RunCtx) {
    cx.assume("steps are counted by the cfg-guarded tick() calls (eval entry, evaluator loops, tokenizer, parser); loops without a counter are covered only by the 10 s wall-clock watchdog");
    for_each_dom!(c02_dom, cx);
    crate::fam::pumping_all(cx, &[Kind::Budget]);
    crate::fam::critical_all(cx, &[Kind::Budget]);
    crate::fam::special_integers_all(cx, &[Kind::Budget]);
    crate::tchecks::all_ops_trees(cx, &[Kind::Budget]);
}

// ---------------------------------------------------------------- C03
fn c03_dom<D: Dom>(cx: &RunCtx) {
    let k = [Kind::MalformedOk, Kind::WellFormedErr, Kind::PrefixOk];
    let (cd, fd, chr) = if quick(cx) { (5, 3, 4) } else { (7, 4, 4) };
    tok_run::<D>(cx, "E-TOK Σ_class+foreign", sigma_class(D::EV), cd, 4, 0, &k, None, 2400);
    tok_run::<D>(cx, "E-TOK Σ_full+foreign", sigma_full(D::EV), fd, 3, 0, &k, None, 2400);
    tok_run::<D>(cx, "E-CHR", sigma_chars(D::EV), chr, 9, 0, &k, None, 2400);
}
pub fn c03(cx: &RunCtx) {
    cx.assume("the reference recogniser (shunting-yard, written from the statements) is the definition of well-formedness; inputs it marks unspecified (literal directly followed by a literal, bare-i adjacency) carry no demand");
    for_each_dom!(c03_dom, cx);
    crate::fam::per_name_all(cx, &[Kind::MalformedOk, Kind::WellFormedErr, Kind::PrefixOk]);
    crate::fam::pumping_all(cx, &[Kind::MalformedOk, Kind::WellFormedErr, Kind::PrefixOk]);
    crate::fam::nested_slips_all(cx, &[Kind::MalformedOk, Kind::WellFormedErr, Kind::PrefixOk]);
    crate::fam::plausible_names_all(cx, &[Kind::MalformedOk, Kind::WellFormedErr, Kind::PrefixOk]);
    crate::fam::foreign_all(cx, &[Kind::MalformedOk, Kind::WellFormedErr, Kind::PrefixOk]);
    let d = if quick(cx) { 4 } else { 5 };
    let k = [Kind::MalformedOk, Kind::WellFormedErr, Kind::PrefixOk];
    tok_rotating::<F64>(cx, d, &k);
    tok_rotating::<I64>(cx, d, &k);
    tok_rotating::<Dec>(cx, d, &k);
    tok_rotating::<Cpx>(cx, d, &k);
    tok_rotating::<Num>(cx, d, &k);
}

// ---------------------------------------------------------------- C04
fn c04_dom<D: Dom>(cx: &RunCtx) {
    // the placeholder also takes the ends of the range: a regrouping that leaves every ordinary value unchanged
    // (exact arithmetic) still moves an overflow, so `@+2-3` with @ = MAX must be Err, not MAX - 1
    let k = [Kind::Value, Kind::MustErrOk, Kind::WellFormedErr];
    let d = if quick(cx) { 6 } else { 8 };
    tok_run::<D>(cx, "E-TOK Σ_ops", sigma_ops(D::EV), d, 4, 3, &k, None, 2400);
    let mut ops: Vec<&str> = vec!["+", "-", "*", "/", "^"];
    if D::EV.has_percent() {
        ops.push("%");
    }
    if D::EV.has_bitops() {
        ops.extend(["&", "|", "<<", ">>"]);
    }
    let joiners: Vec<(String, String, String)> = ops.iter().map(|o| (String::new(), o.to_string(), String::new())).collect();
    ecomp::<D>(cx, sigma_ops(D::EV), &joiners, &k);
}

/// E-COMP: every explored well-formed string of depth <= 3 (that evaluates to Ok) composed with every other
/// one through each joiner `pre A mid B post` WITHOUT adding brackets, so that the operators inside A and B
/// interact with the new construct: expressions of up to 7 tokens plus the joiner, many more of them than
/// the depth bound alone reaches, each judged against the reference tree
pub fn ecomp<D: Dom>(cx: &RunCtx, alphabet: Vec<String>, joiners: &[(String, String, String)], kinds: &[Kind]) {
    if !cx.wants(D::EV.name()) {
        return;
    }
    let subs: std::sync::Mutex<Vec<String>> = std::sync::Mutex::new(Vec::new());
    let collect = |c: &Ctx<D>, _st: &mut crate::report::Stats, _rec: &crate::report::Recorder| {
        if let refmodel::parse::Parsed::WellFormed(_) = c.parsed {
            if c.base.out.ok().is_some() {
                subs.lock().unwrap().push(c.s.to_string());
            }
        }
    };
    let none: [Kind; 0] = [];
    tok_run::<D>(cx, "E-TOK (collecting operands for E-COMP)", alphabet, 3, 9, ONLY_DEFAULT, &none, Some(&collect), 2400);
    let mut subs = subs.into_inner().unwrap();
    subs.sort();
    subs.dedup();
    let mut list: Vec<String> = Vec::with_capacity(subs.len() * subs.len() * joiners.len());
    for a in &subs {
        for b in &subs {
            for (pre, mid, post) in joiners {
                list.push(format!("{}{}{}{}{}", pre, a, mid, b, post));
            }
        }
    }
    crate::fam::run_list::<D>(cx, "E-COMP pre A mid B post over explored operands", &list, &[D::default_at()], kinds);
}
pub fn c04(cx: &RunCtx) {
    cx.assume("operands are distinct small primes (and 0.5) so that different groupings give different values; the reference tree is evaluated with the same arithmetic primitives as the subject, so only grouping can differ");
    for_each_dom!(c04_dom, cx);
    // long inputs: the pumped families (nesting and chains up to 256 characters) against the reference tree
    crate::fam::pumping_all(cx, &[Kind::Value]);
}

pub fn dispatch(cx: &RunCtx) -> bool {
    match cx.prop.as_str() {
        "C01" => c01(cx),
        "C02" => c02(cx),
        "C03" => c03(cx),
        "C04" => c04(cx),
        "C05" => crate::tchecks::c05(cx),
        "C06" => crate::tchecks::c06(cx),
        "C07" => crate::tchecks::c07(cx),
        "C08" => crate::cchecks::c08(cx),
        "C09" => crate::tchecks::c09(cx),
        "C10" => crate::fchecks::c10(cx),
        "C11" => crate::fchecks::c11(cx),
        "C12" => crate::mchecks::c12(cx),
        "C13" => crate::mchecks::c13(cx),
        "C14" => crate::mchecks::c14(cx),
        "C20" => crate::mchecks::c20(cx),
        "C15" => crate::xchecks::c15(cx),
        "C16" => crate::pchecks::c16(cx),
        "C18" => crate::nchecks::c18(cx),
        "C19" => crate::nchecks::c19(cx),
        _ => return false,
    }
    true
}

#[allow(dead_code)]
pub fn all_evs() -> [Ev; 5] {
    refmodel::vocab::ALL_EVS
}
