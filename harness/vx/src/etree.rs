//! E-TREE: all typed expression trees of depth <= 2 over an operator set and a boundary pool,
//! rendered through the public syntax and evaluated by the real eval_*; the reference evaluates the tree.
use crate::dom::*;
use crate::report::*;
use crate::sut::*;
use rayon::prelude::*;
use refmodel::parse::*;
use refmodel::vocab::Func;
use serde_json::json;

/// when set (env VX_DUMP_OUTCOMES), every tree outcome is written there: used to locate a difference
/// between the two arithmetic profiles (C06)
pub static DUMP: std::sync::OnceLock<std::sync::Mutex<std::io::BufWriter<std::fs::File>>> = std::sync::OnceLock::new();

pub fn nd(e: Expr) -> Node {
    Node { e, span: (0, 0) }
}
pub fn lit(t: &str) -> Node {
    nd(Expr::Lit {
        text: t.to_string(),
        imag: false,
    })
}
pub fn neg(n: Node) -> Node {
    nd(Expr::Neg(Box::new(n)))
}
pub fn paren(n: Node) -> Node {
    nd(Expr::Group(GroupKind::Paren, Box::new(n)))
}
pub fn bin(b: BinOp, l: Node, r: Node) -> Node {
    nd(Expr::Bin(b, Box::new(l), Box::new(r)))
}

/// text of a tree in the public syntax; every operand is bracketed so that only the tree decides grouping
pub fn render(n: &Node) -> String {
    fn operand(n: &Node) -> String {
        match &n.e {
            Expr::Lit { .. } | Expr::At | Expr::Pi | Expr::E | Expr::ImagUnit | Expr::Call(..) | Expr::Group(..) => render(n),
            _ => format!("({})", render(n)),
        }
    }
    match &n.e {
        Expr::Lit { text, imag } => format!("{}{}", text, if *imag { "i" } else { "" }),
        Expr::ImagUnit => "i".into(),
        Expr::At => "@".into(),
        Expr::Pi => "pi".into(),
        Expr::E => "e".into(),
        Expr::Neg(x) => format!("-{}", operand(x)),
        Expr::Pos(x) => format!("+{}", operand(x)),
        Expr::Bin(b, l, r) => {
            let o = match b {
                BinOp::Or => "|",
                BinOp::And => "&",
                BinOp::Shl => "<<",
                BinOp::Shr => ">>",
                BinOp::Add => "+",
                BinOp::Sub => "-",
                BinOp::Mul => "*",
                BinOp::Div => "/",
                BinOp::Rem => "%",
                BinOp::Pow => "^",
                BinOp::Impl => "",
            };
            format!("{}{}{}", operand(l), o, operand(r))
        }
        Expr::Post(p, x) => format!(
            "{}{}",
            operand(x),
            match p {
                PostOp::Fact => "!",
                PostOp::Deg => "°",
                PostOp::Rad => "rad",
            }
        ),
        Expr::Sup(x, d) => {
            let sup: String = d
                .chars()
                .map(|c| refmodel::vocab::SUPERSCRIPTS[(c as u8 - b'0') as usize])
                .collect();
            format!("{}{}", operand(x), sup)
        }
        Expr::Group(k, x) => match k {
            GroupKind::Paren => format!("({})", render(x)),
            GroupKind::Floor => format!("⌊{}⌋", render(x)),
            GroupKind::Ceil => format!("⌈{}⌉", render(x)),
        },
        Expr::Call(f, args) => format!(
            "{}({})",
            func_name(*f),
            args.iter().map(render).collect::<Vec<_>>().join(",")
        ),
    }
}

pub fn func_name(f: Func) -> &'static str {
    use Func::*;
    match f {
        Sin => "sin",
        Cos => "cos",
        Tan => "tan",
        Sinh => "sinh",
        Cosh => "cosh",
        Tanh => "tanh",
        Asin => "asin",
        Acos => "acos",
        Atan => "atan",
        Atan2 => "atan2",
        Asinh => "asinh",
        Acosh => "acosh",
        Atanh => "atanh",
        Ln => "ln",
        Lb => "lb",
        Log => "log",
        ILog => "ilog",
        Pow => "pow",
        Sqrt => "sqrt",
        Root => "root",
        Exp => "exp",
        Exp2 => "exp2",
        LambertW => "w",
        Abs => "abs",
        Sign => "sgn",
        Trunc => "trunc",
        Floor => "floor",
        Ceil => "ceil",
        Round => "round",
        Min => "min",
        Max => "max",
        Avg => "avg",
        Med => "med",
        Mod => "mod",
        Gcd => "gcd",
        Lcm => "lcm",
    }
}

pub struct Leaf<D: Dom> {
    pub node: Node,
    pub at: Option<D::V>,
}

impl<D: Dom> Clone for Leaf<D> {
    fn clone(&self) -> Self {
        Leaf {
            node: self.node.clone(),
            at: self.at.clone(),
        }
    }
}

impl<D: Dom> Leaf<D> {
    pub fn of(node: Node) -> Self {
        Leaf { node, at: None }
    }
    pub fn at(v: D::V) -> Self {
        Leaf {
            node: nd(Expr::At),
            at: Some(v),
        }
    }
}

#[derive(Clone, Copy, Debug, PartialEq)]
pub enum UnOp {
    Neg,
    Fact,
    Deg,
    Rad,
    Call(Func),
    Floor,
    Ceil,
    Sup2,
}

#[derive(Clone, Copy, Debug, PartialEq)]
pub enum BinKind {
    Op(BinOp),
    Call(Func),
}

pub type JudgeFn<'a, D> = &'a (dyn Fn(&Node, &<D as Dom>::V, Option<&<D as Dom>::V>) -> Judge + Sync);
pub type OkHook<'a, D> = &'a (dyn Fn(&str, &<D as Dom>::V, &<D as Dom>::V, &mut Stats, &Recorder) + Sync);

pub struct TreeCfg<'a, D: Dom> {
    pub engine: String,
    pub bins: Vec<BinKind>,
    pub uns: Vec<UnOp>,
    pub pool: Vec<Leaf<D>>,
    /// smaller pool used at depth 3
    pub pool3: Vec<Leaf<D>>,
    pub depth: usize,
    pub kinds: &'a [Kind],
    pub judge: Option<JudgeFn<'a, D>>,
    pub on_ok: Option<OkHook<'a, D>>,
    /// assign a family tag to a violation (known findings)
    pub family: Option<&'a (dyn Fn(&Node, &str, &<D as Dom>::V) -> Option<String> + Sync)>,
}

fn apply_un(u: UnOp, x: Node) -> Node {
    match u {
        UnOp::Neg => neg(x),
        UnOp::Fact => nd(Expr::Post(PostOp::Fact, Box::new(x))),
        UnOp::Deg => nd(Expr::Post(PostOp::Deg, Box::new(x))),
        UnOp::Rad => nd(Expr::Post(PostOp::Rad, Box::new(x))),
        UnOp::Call(f) => nd(Expr::Call(f, vec![x])),
        UnOp::Floor => nd(Expr::Group(GroupKind::Floor, Box::new(x))),
        UnOp::Ceil => nd(Expr::Group(GroupKind::Ceil, Box::new(x))),
        UnOp::Sup2 => nd(Expr::Sup(Box::new(x), "2".into())),
    }
}

fn apply_bin(b: BinKind, l: Node, r: Node) -> Node {
    match b {
        BinKind::Op(o) => bin(o, l, r),
        BinKind::Call(f) => nd(Expr::Call(f, vec![l, r])),
    }
}

fn join_at<D: Dom>(a: &Option<D::V>, b: &Option<D::V>) -> Result<Option<D::V>, ()> {
    match (a, b) {
        (None, x) | (x, None) => Ok(x.clone()),
        (Some(x), Some(y)) => {
            if D::same(x, y) {
                Ok(Some(x.clone()))
            } else {
                Err(())
            }
        }
    }
}

pub fn run_tree<D: Dom>(cfg: &TreeCfg<D>, tree: &Node, at: &Option<D::V>, st: &mut Stats, rec: &Recorder) {
    let text = render(tree);
    if text.chars().count() > 256 {
        st.bump("skipped:longer-than-256", 1);
        return;
    }
    let at_v = at.clone().unwrap_or_else(D::default_at);
    let run = run::<D>(&text, &at_v);
    st.nodes += 1;
    st.transitions += 1;
    st.executions += 1;
    st.max_steps = st.max_steps.max(run.steps);
    st.outcome_digest = st
        .outcome_digest
        .wrapping_add(crate::etok::digest_of::<D>(&text, &at_v, &run.out));
    if let Some(w) = DUMP.get() {
        use std::io::Write;
        let o = match &run.out {
            Out::Ok(v) => format!("ok:{}", D::enc(v)),
            Out::Err => "err".to_string(),
            Out::Panic(_) => "panic".to_string(),
            Out::Budget(_) => "budget".to_string(),
        };
        let _ = writeln!(w.lock().unwrap(), "{}\t{}\t{}\t{}", D::EV.name(), text, D::enc(&at_v), o);
    }
    let verdict: Option<(Kind, String, String)> = match &run.out {
        Out::Panic(m) => {
            st.panics += 1;
            Some((Kind::Panic, "Ok(_) or Err(_)".into(), format!("panic: {}", m)))
        }
        Out::Budget(s) => {
            st.budgets += 1;
            Some((
                Kind::Budget,
                format!("at most {} counted steps", budget_for(&text)),
                format!("still running after {} steps", s),
            ))
        }
        Out::Ok(_) | Out::Err => {
            let got = run.out.ok();
            if got.is_some() {
                st.ok += 1;
            } else {
                st.err += 1;
            }
            let j = match cfg.judge {
                Some(jf) => jf(tree, &at_v, got),
                None => D::judge(tree, &at_v, got),
            };
            match j {
                Judge::Agree => {
                    st.compared += 1;
                    None
                }
                Judge::Skip(r) => {
                    if r == "value not compared" {
                        st.skipped_value += 1;
                    } else {
                        st.unspecified += 1;
                    }
                    None
                }
                Judge::Bad(k, exp) => {
                    st.compared += 1;
                    Some((
                        k,
                        exp,
                        match got {
                            Some(v) => format!("Ok({})", D::show(v)),
                            None => "Err".into(),
                        },
                    ))
                }
            }
        }
    };
    if let (Some(h), Some(v)) = (cfg.on_ok, run.out.ok()) {
        h(&text, &at_v, v, st, rec);
    }
    if st.samples.len() < 2 && st.nodes % 97 == 1 {
        st.samples.push(json!({"evaluator": D::EV.name(), "input": text, "placeholder": D::show(&at_v),
            "outcome": run.out.tag(), "value": run.out.ok().map(|v| D::show(v))}));
    }
    if let Some((kind, expected, observed)) = verdict {
        if cfg.kinds.contains(&kind) {
            let mut v = crate::etok::make_violation::<D>(
                &cfg.engine,
                &text,
                &at_v,
                crate::etok::Outcome1 {
                    kind,
                    expected,
                    observed,
                },
                at.is_some(),
            );
            if let Some(f) = cfg.family {
                v.family = f(tree, &text, &at_v);
            }
            rec.add(v);
        } else {
            st.bump(&format!("other-kind:{}", kind.name()), 1);
            if std::env::var_os("VERIF_SHOW_OTHER").is_some() {
                eprintln!("OTHER-KIND {} [{} {}] input={:?} at={} expected {} / observed {}", kind.name(), cfg.engine, D::EV.name(), text, D::show(&at_v), expected, observed);
            }
        }
    }
}

/// Enumerates every tree of depth <= cfg.depth (1, 2 or 3; depth 3 uses pool3).
pub fn explore_trees<D: Dom>(cfg: &TreeCfg<D>, rec: &Recorder) -> (Stats, serde_json::Value) {
    let t0 = std::time::Instant::now();
    let mut total = Stats::default();
    // depth 0: the leaves themselves
    for l in &cfg.pool {
        run_tree::<D>(cfg, &l.node, &l.at, &mut total, rec);
    }
    // depth 1
    let d1: Vec<Stats> = cfg
        .pool
        .par_iter()
        .map(|a| {
            let mut st = Stats::default();
            for u in &cfg.uns {
                run_tree::<D>(cfg, &apply_un(*u, a.node.clone()), &a.at, &mut st, rec);
            }
            for b in &cfg.bins {
                for c in &cfg.pool {
                    if let Ok(at) = join_at::<D>(&a.at, &c.at) {
                        run_tree::<D>(cfg, &apply_bin(*b, a.node.clone(), c.node.clone()), &at, &mut st, rec);
                    }
                }
            }
            st
        })
        .collect();
    for s in &d1 {
        total.merge(s);
    }
    if cfg.depth >= 2 {
        let pool = if cfg.depth >= 3 { &cfg.pool3 } else { &cfg.pool };
        let d2: Vec<Stats> = pool
            .par_iter()
            .map(|a| {
                let mut st = Stats::default();
                // un(un(a))
                for u1 in &cfg.uns {
                    for u2 in &cfg.uns {
                        run_tree::<D>(cfg, &apply_un(*u1, apply_un(*u2, a.node.clone())), &a.at, &mut st, rec);
                    }
                }
                for c in pool {
                    let at_ac = match join_at::<D>(&a.at, &c.at) {
                        Ok(x) => x,
                        Err(_) => continue,
                    };
                    for b in &cfg.bins {
                        let ac = apply_bin(*b, a.node.clone(), c.node.clone());
                        // un(bin(a,c)), bin(un(a),c), bin(a,un(c))
                        for u in &cfg.uns {
                            run_tree::<D>(cfg, &apply_un(*u, ac.clone()), &at_ac, &mut st, rec);
                            run_tree::<D>(cfg, &apply_bin(*b, apply_un(*u, a.node.clone()), c.node.clone()), &at_ac, &mut st, rec);
                            run_tree::<D>(cfg, &apply_bin(*b, a.node.clone(), apply_un(*u, c.node.clone())), &at_ac, &mut st, rec);
                        }
                        // bin2(bin(a,c), e), bin2(e, bin(a,c))
                        for e in pool {
                            let at3 = match join_at::<D>(&at_ac, &e.at) {
                                Ok(x) => x,
                                Err(_) => continue,
                            };
                            for b2 in &cfg.bins {
                                run_tree::<D>(cfg, &apply_bin(*b2, ac.clone(), e.node.clone()), &at3, &mut st, rec);
                                run_tree::<D>(cfg, &apply_bin(*b2, e.node.clone(), ac.clone()), &at3, &mut st, rec);
                            }
                        }
                    }
                }
                st
            })
            .collect();
        for s in &d2 {
            total.merge(s);
        }
    }
    if cfg.depth >= 3 {
        // depth 3 over the sub-pool: bin3(bin2(bin1(a,b),c),d) and the mirrored / balanced shapes
        let pool = &cfg.pool3;
        let d3: Vec<Stats> = pool
            .par_iter()
            .map(|a| {
                let mut st = Stats::default();
                for b1 in &cfg.bins {
                    for c in pool {
                        let at1 = match join_at::<D>(&a.at, &c.at) {
                            Ok(x) => x,
                            Err(_) => continue,
                        };
                        let t1 = apply_bin(*b1, a.node.clone(), c.node.clone());
                        for b2 in &cfg.bins {
                            for e in pool {
                                let at2 = match join_at::<D>(&at1, &e.at) {
                                    Ok(x) => x,
                                    Err(_) => continue,
                                };
                                let t2l = apply_bin(*b2, t1.clone(), e.node.clone());
                                let t2r = apply_bin(*b2, e.node.clone(), t1.clone());
                                for b3 in &cfg.bins {
                                    for g in pool {
                                        let at3 = match join_at::<D>(&at2, &g.at) {
                                            Ok(x) => x,
                                            Err(_) => continue,
                                        };
                                        run_tree::<D>(cfg, &apply_bin(*b3, t2l.clone(), g.node.clone()), &at3, &mut st, rec);
                                        run_tree::<D>(cfg, &apply_bin(*b3, g.node.clone(), t2l.clone()), &at3, &mut st, rec);
                                        run_tree::<D>(cfg, &apply_bin(*b3, t2r.clone(), g.node.clone()), &at3, &mut st, rec);
                                        run_tree::<D>(cfg, &apply_bin(*b3, g.node.clone(), t2r.clone()), &at3, &mut st, rec);
                                    }
                                }
                                for u in &cfg.uns {
                                    run_tree::<D>(cfg, &apply_un(*u, t2l.clone()), &at2, &mut st, rec);
                                    run_tree::<D>(cfg, &apply_un(*u, t2r.clone()), &at2, &mut st, rec);
                                }
                            }
                        }
                    }
                }
                st
            })
            .collect();
        for s in &d3 {
            total.merge(s);
        }
    }
    let desc = json!({
        "engine": cfg.engine, "evaluator": D::EV.name(), "tree_depth": cfg.depth,
        "binary_ops": cfg.bins.iter().map(|b| format!("{:?}", b)).collect::<Vec<_>>(),
        "unary_ops": cfg.uns.iter().map(|b| format!("{:?}", b)).collect::<Vec<_>>(),
        "pool": cfg.pool.iter().map(|l| match &l.at { Some(v) => format!("@={}", D::show(v)), None => render(&l.node) }).collect::<Vec<_>>(),
        "pool_depth3": cfg.pool3.iter().map(|l| match &l.at { Some(v) => format!("@={}", D::show(v)), None => render(&l.node) }).collect::<Vec<_>>(),
        "wall_s": t0.elapsed().as_secs_f64(), "stats": total.to_json(),
    });
    (total, desc)
}
