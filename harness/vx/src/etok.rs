//! E-TOK / E-CHR: stateless depth-first exploration of the lexer -> parser -> evaluator pipeline with
//! the input stream as the environment. A node is a string of fragments; a transition appends one.
use crate::dom::*;
use crate::report::*;
use crate::sut::*;
use rayon::prelude::*;
use refmodel::lex::{lex, Lexed};
use refmodel::parse::{parse_lexed, Parsed};
use serde_json::json;
use std::sync::atomic::{AtomicBool, AtomicU64, Ordering};
use std::time::Instant;

pub struct Ctx<'a, D: Dom> {
    pub s: &'a str,
    pub depth: usize,
    pub lx: &'a Lexed,
    pub parsed: &'a Parsed,
    /// run with the first placeholder of the pool
    pub base: &'a Run<D::V>,
    pub engine: &'a str,
}

pub type Extra<'a, D> = &'a (dyn Fn(&Ctx<D>, &mut Stats, &Recorder) + Sync);

pub struct TokCfg<'a, D: Dom> {
    pub engine: String,
    pub alphabet: Vec<String>,
    pub depth: usize,
    /// depth explored without pruning first (also validates the pruning rule)
    pub unpruned_depth: usize,
    pub pool_shallow: Vec<D::V>,
    pub shallow_depth: usize,
    pub pool_deep: Vec<D::V>,
    pub kinds: &'a [Kind],
    pub extra: Option<Extra<'a, D>>,
    pub deadline: Option<Instant>,
}

pub struct Outcome1 {
    pub kind: Kind,
    pub expected: String,
    pub observed: String,
}

/// Compare one run with the reference verdict. None = agreement or no demand.
pub fn classify<D: Dom>(
    lx: &Lexed,
    parsed: &Parsed,
    at: &D::V,
    run: &Run<D::V>,
    st: &mut Stats,
) -> Option<Outcome1> {
    st.executions += 1;
    st.max_steps = st.max_steps.max(run.steps);
    let bound = alloc_bound(lx.chars.len());
    st.max_alloc_bytes = st.max_alloc_bytes.max(run.alloc_bytes);
    st.max_alloc_permille = st.max_alloc_permille.max(run.alloc_count.saturating_mul(1000) / bound);
    if run.alloc_count > bound && !matches!(run.out, Out::Panic(_) | Out::Budget(_)) {
        st.budgets += 1;
        return Some(Outcome1 {
            kind: Kind::Budget,
            expected: format!("at most {} allocations for an input of {} characters (8 per step of the bound 4096 + 256 len)", bound, lx.chars.len()),
            observed: format!("{} allocations, {} bytes", run.alloc_count, run.alloc_bytes),
        });
    }
    match &run.out {
        Out::Panic(msg) => {
            st.panics += 1;
            Some(Outcome1 {
                kind: Kind::Panic,
                expected: "Ok(_) or Err(_)".into(),
                observed: format!("panic: {}", msg),
            })
        }
        Out::Budget(steps) => {
            st.budgets += 1;
            Some(Outcome1 {
                kind: Kind::Budget,
                expected: format!("at most {} counted steps", budget_for(&lx.chars.iter().collect::<String>())),
                observed: format!("still running after {} steps", steps),
            })
        }
        Out::Ok(v) => {
            st.ok += 1;
            match parsed {
                Parsed::Malformed(k) => {
                    st.compared += 1;
                    Some(Outcome1 {
                        kind: Kind::MalformedOk,
                        expected: format!("Err (not a complete expression: rejected at token {})", k),
                        observed: format!("Ok({})", D::show(v)),
                    })
                }
                Parsed::Unspecified(_) => {
                    st.unspecified += 1;
                    None
                }
                Parsed::WellFormed(n) => match D::judge(n, at, Some(v)) {
                    Judge::Agree => {
                        st.compared += 1;
                        // the tokenizer must have been asked for the token after the last one
                        if !lx.bad && run.tokens != 0 && run.tokens < lx.len() as u64 + 1 {
                            return Some(Outcome1 {
                                kind: Kind::PrefixOk,
                                expected: format!("{} token requests (incl. end of input)", lx.len() + 1),
                                observed: format!("Ok({}) after {} token requests", D::show(v), run.tokens),
                            });
                        }
                        None
                    }
                    Judge::Skip(r) => {
                        if r == "value not compared" {
                            st.skipped_value += 1;
                        } else {
                            st.unspecified += 1;
                        }
                        None
                    }
                    Judge::Bad(kind, exp) => {
                        st.compared += 1;
                        Some(Outcome1 {
                            kind,
                            expected: exp,
                            observed: format!("Ok({})", D::show(v)),
                        })
                    }
                },
            }
        }
        Out::Err => {
            st.err += 1;
            match parsed {
                Parsed::WellFormed(n) => match D::judge(n, at, None) {
                    Judge::Agree => {
                        st.compared += 1;
                        None
                    }
                    Judge::Skip(_) => {
                        st.unspecified += 1;
                        None
                    }
                    Judge::Bad(kind, exp) => {
                        st.compared += 1;
                        Some(Outcome1 {
                            kind,
                            expected: exp,
                            observed: "Err".into(),
                        })
                    }
                },
                Parsed::Malformed(_) => {
                    st.compared += 1;
                    None
                }
                Parsed::Unspecified(_) => {
                    st.unspecified += 1;
                    None
                }
            }
        }
    }
}

pub fn digest_of<D: Dom>(s: &str, at: &D::V, out: &Out<D::V>) -> u64 {
    let o = match out {
        Out::Ok(v) => format!("ok:{}", D::enc(v)),
        Out::Err => "err".to_string(),
        Out::Panic(_) => "panic".to_string(),
        Out::Budget(_) => "budget".to_string(),
    };
    fnv(format!("{}\u{1}{}\u{1}{}", s, D::enc(at), o).as_bytes())
}

pub fn make_violation<D: Dom>(engine: &str, s: &str, at: &D::V, o: Outcome1, uses_at: bool) -> Violation {
    Violation {
        kind: o.kind,
        ev: D::EV.name().to_string(),
        input: s.to_string(),
        at_enc: if uses_at { D::enc(at) } else { D::enc(&D::default_at()) },
        at_show: if uses_at { D::show(at) } else { D::show(&D::default_at()) },
        at_rust: if uses_at { D::rust_expr(at) } else { D::rust_expr(&D::default_at()) },
        expected: o.expected,
        observed: o.observed,
        engine: engine.to_string(),
        family: None,
        detail: json!({}),
    }
}

struct Shared<'a, D: Dom> {
    cfg: &'a TokCfg<'a, D>,
    rec: &'a Recorder,
    prune: bool,
    /// nodes at depth <= this are re-executed but neither checked nor counted (phase 2)
    silent_depth: usize,
    max_depth: usize,
    unsound: &'a AtomicU64,
    stop: &'a AtomicBool,
}

struct NodeInfo {
    closed: bool,
}

fn visit<D: Dom>(sh: &Shared<D>, s: &str, depth: usize, under_closed: bool, st: &mut Stats) -> NodeInfo {
    let cfg = sh.cfg;
    let lx = lex(D::EV, s);
    let parsed = parse_lexed(D::EV, &lx);
    let uses_at = s.contains('@');
    let silent = depth <= sh.silent_depth;
    let pool: &[D::V] = if !uses_at {
        &cfg.pool_deep[..1.min(cfg.pool_deep.len())]
    } else if depth <= cfg.shallow_depth {
        &cfg.pool_shallow
    } else {
        &cfg.pool_deep
    };
    let mut all_err = true;
    let mut tokens_first = 0u64;
    let mut base: Option<Run<D::V>> = None;
    let mut local = Stats::default();
    for (i, at) in pool.iter().enumerate() {
        if silent && i > 0 {
            break;
        }
        let run = run::<D>(s, at);
        if i == 0 {
            tokens_first = run.tokens;
        }
        if !run.out.is_err() {
            all_err = false;
        }
        if !silent {
            local.outcome_digest = local.outcome_digest.wrapping_add(digest_of::<D>(s, at, &run.out));
            if let Some(o) = classify::<D>(&lx, &parsed, at, &run, &mut local) {
                if cfg.kinds.contains(&o.kind) {
                    sh.rec.add(make_violation::<D>(&cfg.engine, s, at, o, uses_at));
                } else {
                    local.bump(&format!("other-kind:{}", o.kind.name()), 1);
                    if std::env::var_os("VERIF_SHOW_OTHER").is_some() {
                        eprintln!("OTHER-KIND {} [{} {}] input={:?} at={} expected {} / observed {}", o.kind.name(), cfg.engine, D::EV.name(), s, D::show(at), o.expected, o.observed);
                    }
                }
            }
        }
        if i == 0 {
            base = Some(run);
        }
    }
    let base = base.expect("non-empty pool");
    // pruning rule: the parser gave up before requesting the last token of s, every token it did
    // request is stable under extension, and the reference rejects within those tokens as well
    let m = lx.len() as u64;
    let mut would_close = false;
    if all_err && tokens_first > 0 && tokens_first <= m.saturating_sub(1) {
        let stable = lx.unstable[..tokens_first as usize].iter().all(|u| !*u);
        let ref_rejects_early = match &parsed {
            Parsed::Malformed(k) => (*k as u64) < tokens_first,
            _ => false,
        };
        would_close = stable && ref_rejects_early;
    }
    if !silent {
        st.nodes += 1;
        st.merge(&local);
        if under_closed && !all_err {
            sh.unsound.fetch_add(1, Ordering::Relaxed);
        }
        if let Some(extra) = cfg.extra {
            let ctx = Ctx::<D> {
                s,
                depth,
                lx: &lx,
                parsed: &parsed,
                base: &base,
                engine: &cfg.engine,
            };
            extra(&ctx, st, sh.rec);
        }
        if st.samples.len() < 2 && depth == sh.max_depth && matches!(parsed, Parsed::WellFormed(_)) {
            st.samples.push(json!({
                "evaluator": D::EV.name(), "input": s, "outcome": base.out.tag(),
                "value": base.out.ok().map(|v| D::show(v)), "steps": base.steps, "token_requests": base.tokens,
            }));
        }
    }
    NodeInfo {
        closed: would_close,
    }
}

fn dfs<D: Dom>(sh: &Shared<D>, buf: &mut String, depth: usize, under_closed: bool, st: &mut Stats) {
    if sh.stop.load(Ordering::Relaxed) {
        return;
    }
    let info = visit::<D>(sh, buf, depth, under_closed, st);
    if depth >= sh.max_depth {
        return;
    }
    if info.closed && sh.prune {
        if depth > sh.silent_depth {
            st.closed += 1;
        }
        return;
    }
    if let Some(dl) = sh.cfg.deadline {
        if st.nodes % 4096 == 0 && Instant::now() > dl {
            sh.stop.store(true, Ordering::Relaxed);
            st.capped = true;
            return;
        }
    }
    let len = buf.len();
    for frag in &sh.cfg.alphabet {
        buf.push_str(frag);
        if depth + 1 > sh.silent_depth {
            st.transitions += 1;
        }
        dfs::<D>(sh, buf, depth + 1, under_closed || info.closed, st);
        buf.truncate(len);
    }
}

fn phase<D: Dom>(sh: &Shared<D>) -> Stats {
    let alpha = &sh.cfg.alphabet;
    // depth-1 nodes sequentially, then one shard per two-fragment prefix
    let mut total = Stats::default();
    let mut first: Vec<(usize, bool)> = Vec::new();
    for (i, a) in alpha.iter().enumerate() {
        if 1 > sh.silent_depth {
            total.transitions += 1;
        }
        let info = visit::<D>(sh, a, 1, false, &mut total);
        if info.closed && sh.prune {
            if 1 > sh.silent_depth {
                total.closed += 1;
            }
            continue;
        }
        first.push((i, info.closed));
    }
    if sh.max_depth < 2 {
        return total;
    }
    let shards: Vec<(usize, usize, bool)> = first
        .iter()
        .flat_map(|(i, c)| (0..alpha.len()).map(move |j| (*i, j, *c)))
        .collect();
    let parts: Vec<Stats> = shards
        .par_iter()
        .map(|(i, j, under)| {
            let mut st = Stats::default();
            let mut buf = String::with_capacity(64);
            buf.push_str(&alpha[*i]);
            buf.push_str(&alpha[*j]);
            if 2 > sh.silent_depth {
                st.transitions += 1;
            }
            dfs::<D>(sh, &mut buf, 2, *under, &mut st);
            st
        })
        .collect();
    for p in &parts {
        total.merge(p);
    }
    total
}

/// Runs the exploration; returns the merged statistics and a JSON description of the run.
pub fn explore<D: Dom>(cfg: &TokCfg<D>, rec: &Recorder) -> (Stats, serde_json::Value) {
    let t0 = Instant::now();
    let unsound = AtomicU64::new(0);
    let stop = AtomicBool::new(false);
    let d1 = cfg.depth.min(cfg.unpruned_depth);
    let sh1 = Shared {
        cfg,
        rec,
        prune: false,
        silent_depth: 0,
        max_depth: d1,
        unsound: &unsound,
        stop: &stop,
    };
    let mut st = phase::<D>(&sh1);
    let n1 = st.nodes;
    let unsound1 = unsound.load(Ordering::Relaxed);
    let mut pruning = "not needed";
    if cfg.depth > d1 && !stop.load(Ordering::Relaxed) {
        let honest = unsound1 == 0;
        pruning = if honest {
            "enabled (validated on the unpruned levels)"
        } else {
            "disabled: a node the rule would have closed had a non-Err extension"
        };
        let sh2 = Shared {
            cfg,
            rec,
            prune: honest,
            silent_depth: d1,
            max_depth: cfg.depth,
            unsound: &unsound,
            stop: &stop,
        };
        let st2 = phase::<D>(&sh2);
        st.merge(&st2);
    }
    let capped = stop.load(Ordering::Relaxed);
    st.capped |= capped;
    let desc = json!({
        "engine": cfg.engine, "evaluator": D::EV.name(), "alphabet_size": cfg.alphabet.len(),
        "alphabet": cfg.alphabet, "depth": cfg.depth, "unpruned_depth": d1, "nodes_unpruned_levels": n1,
        "pruning": pruning, "pruning_rule_unsound_nodes": unsound1,
        "placeholders_shallow": cfg.pool_shallow.len(), "placeholders_deep": cfg.pool_deep.len(),
        "shallow_depth": cfg.shallow_depth, "wall_s": t0.elapsed().as_secs_f64(),
        "exhaustive_to_depth": if capped { d1 } else { cfg.depth }, "cap_hit": capped,
        "stats": st.to_json(),
    });
    (st, desc)
}
