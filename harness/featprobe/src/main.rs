//! featprobe — built once per cargo feature subset of string_calculator (C17).
//! For every enabled evaluator it enumerates the same bounded input space (token sequences over
//! Σ_class to depth D1, over Σ_full to depth D2, and a fixed corpus) and prints one digest per
//! evaluator of all (input, placeholder, outcome bits) triples. `--dump <ev>` prints the triples.
#[path = "../../vx/src/alpha.rs"]
#[allow(dead_code)]
mod alpha;

use refmodel::vocab::Ev;

fn fnv(s: &[u8]) -> u64 {
    let mut h: u64 = 0xcbf29ce484222325;
    for b in s {
        h ^= *b as u64;
        h = h.wrapping_mul(0x100000001b3);
    }
    h
}

fn enumerate(alpha: &[String], depth: usize, f: &mut dyn FnMut(&str)) {
    fn rec(alpha: &[String], depth: usize, buf: &mut String, f: &mut dyn FnMut(&str)) {
        if !buf.is_empty() {
            f(buf);
        }
        if depth == 0 {
            return;
        }
        let l = buf.len();
        for a in alpha {
            buf.push_str(a);
            rec(alpha, depth - 1, buf, f);
            buf.truncate(l);
        }
    }
    rec(alpha, depth, &mut String::new(), f);
}

fn corpus() -> Vec<&'static str> {
    vec![
        "-2^2", "-3²", "2^3²", "-4^0.5", "2^-2", "-2!", "2*3^2", "6/2(3)", "2^3(4)", "-2(3)!", "1+2*3-4/5", "2^3^2", "-(2)^2", "+-+-2^2",
        "2*-3^2", "(-2)^2", "-2^3", "3!^2", "-3!", "2^3!", "abs(-2^2)", "pow(-2,2)", "min(1,2)", "max(1,2)", "avg(1,2)", "med(1,2,3)",
        "1|2&3", "1<<2+3", "7>>1|8", "-1&3", "2+3<<1", "1|2^2", "6&3*2", "gcd(12,18)", "lcm(4,6)", "2.5^2", "0.1+0.2", "1.10*3",
        "sqrt(16)", "ln(e)", "sin(pi)", "2°", "3rad", "⌊2.5⌋", "⌈2.5⌉", "round(2.5)", "w(1)", "ilog(100,10)", "5%3", "mod(5,3)",
        "(1+2i)*(3-i)", "i*i", "2i^2", "-i^2", "sqrt(-1)", "1/0", "0/0", "9223372036854775807+1", "2^63", "21!", "170!", "171!", "@", "@^2", "-@^2", "-@²",
        "1)", "2pi", "1,2", "(1", "pow(1)", "", "#", "1.2.3", "sin", "2(", "@(2)",
    ]
}

fn inputs(ev: Ev, d1: usize, d2: usize) -> Vec<String> {
    let mut v: Vec<String> = Vec::new();
    enumerate(&alpha::sigma_class(ev), d1, &mut |s| v.push(s.to_string()));
    enumerate(&alpha::sigma_full(ev), d2, &mut |s| v.push(s.to_string()));
    enumerate(&alpha::sigma_ops(ev), d1 + 1, &mut |s| v.push(s.to_string()));
    for c in corpus() {
        v.push(c.to_string());
    }
    // every function name and alias of the evaluator on special arguments (and pairs of them)
    let special = ["0", "1", "2", "0.5", "(-1)", "(-0.5)", "(1/0)", "(-1/0)", "(0/0)", "(-0)", "20", "171", "1000000", "@"];
    let mut seen: Vec<&str> = Vec::new();
    for (name, f) in refmodel::vocab::func_names(ev) {
        if seen.contains(name) {
            continue;
        }
        seen.push(name);
        match f.arity() {
            refmodel::vocab::Arity::Fixed(1) => {
                for a in special {
                    v.push(format!("{}({})", name, a));
                }
            }
            _ => {
                for a in special {
                    for b in special {
                        v.push(format!("{}({},{})", name, a, b));
                    }
                }
            }
        }
    }
    for a in special {
        for post in ["!", "°", "rad", "²"] {
            v.push(format!("{}{}", a, post));
        }
    }
    // every name x the critical arguments (branch points, poles, range limits; without the triples)
    v.extend(refmodel::families::critical(ev, false));
    // the pumped families (every recursive construct at lengths up to 256 characters: long digit and
    // superscript runs, deep nesting, long chains)
    v.extend(refmodel::families::pumping(ev));
    // every name in its wrong-arity / wrong-closer / stray-token / juxtaposition contexts and keyword near-misses,
    // and nested calls with every argument-count / separator / closer slip
    v.extend(refmodel::families::per_name(ev));
    v.extend(refmodel::families::nested_slips(ev));
    // the families added for arithmetic slips: runs of prefix signs, integers beyond 2^53 in exact operations,
    // literals at rounding boundaries, the longest Euclid runs
    v.extend(refmodel::families::sign_runs(ev, 3));
    v.extend(refmodel::families::big_integers());
    v.extend(refmodel::families::midpoint_literals());
    if ev == Ev::I64 {
        v.extend(refmodel::families::fibonacci_gcd());
    }
    v
}

fn outcome<T>(r: std::thread::Result<Result<T, string_calculator::ParseError>>, enc: impl Fn(&T) -> String) -> String {
    match r {
        Ok(Ok(v)) => format!("ok:{}", enc(&v)),
        Ok(Err(_)) => "err".to_string(),
        Err(_) => "panic".to_string(),
    }
}

fn run_ev(name: &str, ev: Ev, d1: usize, d2: usize, dump: bool, eval: &dyn Fn(&str, usize) -> String, nplace: usize) {
    let ins = inputs(ev, d1, d2);
    let mut digest: u64 = 0;
    let mut n: u64 = 0;
    for s in &ins {
        let np = if s.contains('@') { nplace } else { 1 };
        for p in 0..np {
            let o = eval(s, p);
            let line = format!("{}\u{1}{}\u{1}{}", s, p, o);
            digest = digest.wrapping_add(fnv(line.as_bytes()));
            n += 1;
            if dump {
                println!("{}\t{}\t{}", s.escape_default(), p, o);
            }
        }
    }
    if !dump {
        println!("DIGEST {} {:016x} {}", name, digest, n);
    }
}

fn main() {
    std::panic::set_hook(Box::new(|_| {}));
    let args: Vec<String> = std::env::args().collect();
    let d1: usize = std::env::var("FEATPROBE_D1").ok().and_then(|s| s.parse().ok()).unwrap_or(3);
    let d2: usize = std::env::var("FEATPROBE_D2").ok().and_then(|s| s.parse().ok()).unwrap_or(2);
    let dump_ev: Option<String> = if args.len() >= 3 && args[1] == "--dump" { Some(args[2].clone()) } else { None };
    let want = |n: &str| dump_ev.as_deref().map(|d| d == n).unwrap_or(true);
    let dump = dump_ev.is_some();
    let _ = (&want, dump, d1, d2);
    #[cfg(feature = "eval_f64")]
    if want("f64") {
        let ps = [7.0f64, -0.0, f64::INFINITY, f64::NAN, 0.5];
        run_ev("f64", Ev::F64, d1, d2, dump, &|s, p| {
            outcome(std::panic::catch_unwind(|| string_calculator::eval_f64(s.to_string(), ps[p])), |v: &f64| {
                if v.is_nan() { "nan".to_string() } else { format!("{:016x}", v.to_bits()) }
            })
        }, ps.len());
    }
    #[cfg(feature = "eval_i64")]
    if want("i64") {
        let ps = [7i64, -1, i64::MAX, i64::MIN, 0];
        run_ev("i64", Ev::I64, d1, d2, dump, &|s, p| {
            outcome(std::panic::catch_unwind(|| string_calculator::eval_i64(s.to_string(), ps[p])), |v: &i64| v.to_string())
        }, ps.len());
    }
    #[cfg(feature = "eval_decimal")]
    if want("decimal") {
        use rust_decimal::Decimal;
        let ps = [Decimal::from(7), Decimal::new(-3, 1), Decimal::MAX, Decimal::new(110, 2), Decimal::ZERO];
        run_ev("decimal", Ev::Dec, d1, d2, dump, &|s, p| {
            outcome(std::panic::catch_unwind(|| string_calculator::eval_decimal(s.to_string(), ps[p])), |v: &Decimal| format!("{:?}", v.serialize()))
        }, ps.len());
    }
    #[cfg(feature = "eval_complex")]
    if want("complex") {
        use num_complex::Complex;
        let ps = [Complex::new(7.0, 0.0), Complex::new(-2.5, 3.0), Complex::new(0.0, 1.0), Complex::new(f64::INFINITY, 0.0), Complex::new(0.0, 0.0)];
        run_ev("complex", Ev::Cpx, d1, d2, dump, &|s, p| {
            outcome(std::panic::catch_unwind(|| string_calculator::eval_complex(s.to_string(), ps[p])), |v: &Complex<f64>| {
                let b = |x: f64| if x.is_nan() { "nan".to_string() } else { format!("{:016x}", x.to_bits()) };
                format!("{}:{}", b(v.re), b(v.im))
            })
        }, ps.len());
    }
    #[cfg(feature = "eval_number")]
    if want("number") {
        use string_calculator::Number;
        let ps = [Number::Integer(7), Number::Integer(i64::MIN), Number::Float(2.5), Number::Float(f64::NAN), Number::Float(-0.0)];
        run_ev("number", Ev::Num, d1, d2, dump, &|s, p| {
            outcome(std::panic::catch_unwind(|| string_calculator::eval_number(s.to_string(), ps[p].clone())), |v: &Number| match v {
                Number::Integer(i) => format!("I{}", i),
                Number::Float(f) => if f.is_nan() { "Fnan".to_string() } else { format!("F{:016x}", f.to_bits()) },
            })
        }, ps.len());
    }
}
