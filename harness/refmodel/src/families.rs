//! Input families shared by the explorer (vx) and the per-feature-subset probe (featprobe).
use crate::vocab::*;

/// argument texts at which some function has a branch point, a pole, a sign change or a range limit
pub fn critical_texts(ev: Ev) -> Vec<String> {
    let mut t: Vec<&str> = vec![
        "0", "1", "(-1)", "2", "(-2)", "3", "20", "21", "27", "28", "63", "64", "65", "66", "67", "(-66)", "95", "96", "143", "150", "170", "171", "(-171)", "709", "710", "(-745)", "1023", "1024", "(-1074)",
        "(-1075)", "4294967296", "9007199254740993", "9223372036854775807", "(-9223372036854775807)", "@",
    ];
    if ev.has_point() {
        t.extend([
            "0.5", "(-0.5)", "1.5", "(-1.5)", "(-170.5)", "150.5", "(-150.5)", "26.5", "27.5", "66.5", "1.0", "2.0", "3.00", "(-1.0)", "(-2.00)", "10.0", "27.0", "0.0", "(1.5+1.5)", "(-0.36787944117144233)", "(-0.36787944117144232)", "(-0.3678794411714423215955237702)",
            "(-0.3678794411714423215955237701)", "(-0.3678794411714423215955237703)", "(-0.3678794411714423)", "(-0.36787944117144)", "(-0.367879441171443)", "0.36787944117144233",
            "1.5707963267948966", "(-1.5707963267948966)", "1.5707963267948966192313216916", "3.141592653589793", "3.1415926535897932384626433833", "6.283185307179586", "2.718281828459045",
            "2.7182818284590452353602874714", "0.9999999999999999", "1.0000000000000002", "(-0.9999999999999999)", "0.9999999999999999999999999999", "(-0.9999999999999999999999999999)",
            "0.0000000000000000000000000001", "709.782712893384", "170.6", "171.7", "79228162514264337593543950335",
        ]);
    }
    if ev.has_consts() {
        t.extend(["e", "pi", "(-pi)", "(-e)", "(pi/2)", "(-pi/2)", "(pi/4)", "(2*pi)", "(3*pi/2)", "(1/e)", "(-1/e)", "(-(1/e))", "(-exp(-1))", "(e^-1)", "(-e^-1)", "(-1/exp(1))", "(pi/6)", "(e-1)", "(1-e)"]);
    }
    if ev == Ev::Cpx {
        t.extend(["i", "(-i)", "(1+i)", "(-1+0i)", "(-1-0i)", "(2i)", "(-2i)", "(i*pi)", "(i*pi/2)", "(1+0i)", "(0.5i)"]);
    }
    let mut v: Vec<String> = t.iter().map(|s| s.to_string()).collect();
    v.sort();
    v.dedup();
    v
}

/// every function name and alias of the evaluator applied to the critical arguments (one argument: all of
/// them; two: all ordered pairs; variadic: pairs and triples over a sub-list), plus the postfix operators
pub fn critical(ev: Ev, triples: bool) -> Vec<String> {
    let crit = critical_texts(ev);
    let mut out = Vec::new();
    let names: Vec<(&str, Func)> = func_names(ev).to_vec();
    let short: Vec<&String> = crit.iter().filter(|c| c.len() <= 9 || c.contains("e)") || c.contains("367879441171442321595")).collect();
    let near = if ev.has_point() { neighbourhoods() } else { Vec::new() };
    for (name, f) in &names {
        match f.arity() {
            Arity::Fixed(1) => {
                for c in &crit {
                    out.push(format!("{}({})", name, c));
                }
                for c in &near {
                    out.push(format!("{}({})", name, c));
                }
            }
            Arity::Fixed(_) => {
                for a in &crit {
                    for b in &crit {
                        out.push(format!("{}({},{})", name, a, b));
                    }
                }
            }
            _ => {
                for a in &crit {
                    out.push(format!("{}({})", name, a));
                    for b in &crit {
                        out.push(format!("{}({},{})", name, a, b));
                    }
                }
                if triples {
                    for a in &short {
                        for b in &short {
                            for c in &short {
                                out.push(format!("{}({},{},{})", name, a, b, c));
                            }
                        }
                    }
                }
            }
        }
    }
    for c in &crit {
        if ev.has_factorial() {
            out.push(format!("{}!", c));
        }
        if ev.has_deg_rad() {
            out.push(format!("{}°", c));
            out.push(format!("{}rad", c));
        }
        if ev.has_floor_brackets() {
            out.push(format!("⌊{}⌋", c));
            out.push(format!("⌈{}⌉", c));
        }
        out.push(format!("{}²", c));
        out.push(format!("-{}", c));
        for d in &crit {
            for op in ["^", "/", "%", "*", "+", "-"] {
                out.push(format!("{}{}{}", c, op, d));
            }
        }
    }
    out.sort();
    out.dedup();
    out
}


/// decimal literals c +- m * 10^-j (m = 1, 3, 7; j = 1..20) around the centres at which some one-argument
/// function changes regime: -1/e (Lambert W), -1, 0, 0.5, 1, 2 — exact decimal arithmetic on digit strings
pub fn neighbourhoods() -> Vec<String> {
    // centres as (sign, integer of 28 fraction digits)
    let scale: u128 = 10u128.pow(28);
    let centres: [(bool, u128); 6] = [
        (true, 3678794411714423215955237702),
        (true, scale),
        (false, 0),
        (false, scale / 2),
        (false, scale),
        (false, 2 * scale),
    ];
    let mut out = Vec::new();
    for (neg, c) in centres {
        let c = c as i128 * if neg { -1 } else { 1 };
        for j in 1..=20u32 {
            for m in [1i128, 3, 7] {
                for sgn in [-1i128, 1] {
                    let v = c + sgn * m * 10i128.pow(28 - j);
                    let a = v.unsigned_abs();
                    let mut t = format!("{}.{:028}", a / scale, a % scale);
                    while t.ends_with('0') {
                        t.pop();
                    }
                    if t.ends_with('.') {
                        t.pop();
                    }
                    out.push(if v < 0 { format!("(-{})", t) } else { t });
                }
            }
        }
    }
    out.sort();
    out.dedup();
    out
}

fn rep(s: &str, n: usize) -> String {
    s.repeat(n)
}

/// pumped instances of every recursive construct at lengths 2^j and at the 256-character limit
pub fn pumping(ev: Ev) -> Vec<String> {
    let mut out: Vec<String> = Vec::new();
    let lens = [1usize, 2, 4, 8, 16, 32, 64, 100, 127, 128];
    let fit = |s: String, out: &mut Vec<String>| {
        if s.chars().count() <= 256 {
            out.push(s);
        }
    };
    for &n in &lens {
        fit(format!("{}1{}", rep("(", n), rep(")", n)), &mut out);
        fit(format!("{}1{}", rep("(", n), rep(")", n.saturating_sub(1))), &mut out);
        fit(format!("{}1", rep("-+", n)), &mut out);
        fit(format!("{}1", rep("-", 2 * n - 1)), &mut out);
        fit(format!("1{}", rep("+1", n)), &mut out);
        fit(format!("1{}", rep("*2", n)), &mut out);
        fit(format!("2{}", rep("^1", n)), &mut out);
        fit(format!("2{}", rep("^2", n)), &mut out);
        fit(format!("1{}", rep("/3", n)), &mut out);
        fit(format!("{}2{}", rep("abs(", n / 2 + 1), rep(")", n / 2 + 1)), &mut out);
        fit(format!("{}2{}", rep("2(", n), rep(")", n)), &mut out);
        fit(format!("2{}", rep("(2)", n / 2 + 1)), &mut out);
        fit(rep("9", n * 2), &mut out);
        fit(rep("0", n * 2), &mut out);
        fit(format!("{}1", rep("0", n * 2 - 1)), &mut out);
        fit(format!("2{}", rep("²", n)), &mut out);
        fit(format!("2{}", rep("⁹", n)), &mut out);
        fit(format!("2{}", rep("⁰", n)), &mut out);
        fit(format!("pow({}", rep("pow(2,", n / 2)), &mut out);
        if ev.has_factorial() {
            fit(format!("1{}", rep("!", n * 2)), &mut out);
            fit(format!("3{}", rep("!", n)), &mut out);
            fit(format!("{}!", rep("9", n)), &mut out);
        }
        if ev.has_percent() {
            fit(format!("7{}", rep("%3", n)), &mut out);
        }
        if ev != Ev::Cpx {
            fit(format!("min(1{})", rep(",1", n)), &mut out);
            fit(format!("med(3{})", rep(",1,2", n / 2 + 1)), &mut out);
            fit(format!("avg(1{})", rep(",2", n)), &mut out);
            fit(format!("max({}1{})", rep("max(", n / 2), rep(")", n / 2)), &mut out);
            // every aggregate nested in itself around a value that makes an inner result special (an infinite
            // sum, the placeholder at the ends of the range): a level that evaluates its operand twice costs 2^depth
            for name in ["min", "max", "avg", "med"] {
                for inner in ["1/0", "@", "0/0"] {
                    fit(format!("{}{}{}", rep(&format!("{}(", name), n / 2 + 1), inner, rep(")", n / 2 + 1)), &mut out);
                    fit(format!("{}{}{}", rep(&format!("{}({},", name, inner), n / 3 + 1), inner, rep(")", n / 3 + 1)), &mut out);
                }
            }
        }
        if ev.has_point() {
            fit(format!("{}.{}", rep("9", n), rep("9", n)), &mut out);
            fit(format!("0.{}1", rep("0", n * 2 - 1)), &mut out);
            fit(rep(".", n), &mut out);
            fit(format!("1{}", rep(".1", n)), &mut out);
            fit(format!("{}.", rep("1", n)), &mut out);
        }
        if ev.has_floor_brackets() {
            fit(format!("{}1.5{}", rep("⌊⌈(", n / 2 + 1), rep(")⌉⌋", n / 2 + 1)), &mut out);
        }
        if ev.has_deg_rad() {
            fit(format!("1{}", rep("°", n * 2)), &mut out);
            fit(format!("1{}", rep("rad", n)), &mut out);
        }
        if ev.has_bitops() {
            fit(format!("1{}", rep("<<1", n)), &mut out);
            fit(format!("1{}", rep("|2&3", n / 2 + 1)), &mut out);
            fit(format!("gcd(12{})", rep(",18", n)), &mut out);
            fit(format!("lcm(2{})", rep(",3", n)), &mut out);
        }
        if ev == Ev::Cpx {
            fit(rep("i", n * 2), &mut out);
            fit(format!("i{}", rep("*i", n)), &mut out);
            fit(format!("{}i", rep("9", n)), &mut out);
        }
        if matches!(ev, Ev::F64 | Ev::Num | Ev::Dec) {
            fit(format!("{}1{}", rep("w(", n / 2 + 1), rep(")", n / 2 + 1)), &mut out);
            fit(format!("ilog({},2)", rep("9", n)), &mut out);
            fit(format!("ilog(5,{})", rep("1", n)), &mut out);
        }
        for ws in WHITE_SPACE {
            if n <= 64 {
                fit(format!("1{}+{}2", rep(&ws.to_string(), n), rep(&ws.to_string(), n)), &mut out);
            }
        }
        fit(rep("@", n), &mut out);
        fit(format!("@{}", rep("+@", n)), &mut out);
        fit(format!("@{}", rep("*@", n)), &mut out);
        fit(format!("@{}", rep("^@", n / 2 + 1)), &mut out);
    }
    // every function that takes two or more arguments, nested in a LATER argument (and unterminated)
    {
        let mut seen: Vec<&str> = Vec::new();
        for (name, f) in func_names(ev) {
            if seen.contains(name) {
                continue;
            }
            seen.push(name);
            if matches!(f.arity(), Arity::Fixed(1)) {
                continue;
            }
            for &n in &[2usize, 4, 8, 11, 12, 14, 16, 20, 24, 32, 40] {
                fit(format!("{}1{}", rep(&format!("{}(1,", name), n), rep(")", n)), &mut out);
                fit(rep(&format!("{}(1,", name), n), &mut out);
                fit(format!("{}1{}", rep(&format!("{}(2,1+", name), n), rep(")", n)), &mut out);
            }
        }
        for &n in &[2usize, 4, 8, 12, 16, 24, 32, 48, 64] {
            fit(format!("{}1{}", rep("(1+", n), rep(")", n)), &mut out);
            fit(format!("{}1{}", rep("2*(1+", n), rep(")", n)), &mut out);
            fit(format!("{}1{}", rep("-(", n), rep(")", n)), &mut out);
        }
    }
    // every recursive position: each wrapper nested n times around `1`, alone and alternated pairwise
    {
        let wrappers: Vec<(&str, &str)> = vec![
            ("(", ")"),
            ("⌊", "⌋"),
            ("⌈", "⌉"),
            ("abs(", ")"),
            ("pow(", ",2)"),
            ("pow(2,", ")"),
            ("min(1,", ")"),
            ("min(", ",1)"),
            ("avg(1,2,", ")"),
            ("-", ""),
            ("", "!"),
            ("2*", ""),
            ("", "^2"),
            ("2(", ")"),
            ("(", ")(2)"),
            ("1+", ""),
            ("", "²"),
        ];
        let nest = |ws: &[(&str, &str)], n: usize| -> String {
            let mut pre = String::new();
            let mut post = String::new();
            for i in 0..n {
                let (a, b) = ws[i % ws.len()];
                pre.push_str(a);
                post.insert_str(0, b);
            }
            format!("{}1{}", pre, post)
        };
        for (i, w) in wrappers.iter().enumerate() {
            for &n in &[3usize, 6, 10, 12, 16, 24, 32, 48, 64, 100] {
                fit(nest(&[*w], n), &mut out);
            }
            for (j, v) in wrappers.iter().enumerate() {
                if i != j {
                    for &n in &[4usize, 8, 12, 20, 32, 50] {
                        fit(nest(&[*w, *v], n), &mut out);
                    }
                }
            }
        }
    }
    // error sites followed by long tails of multi-byte characters at every byte alignment
    // (code that formats or slices "the rest of the input" must respect character boundaries)
    for prefix in ["1)", "2,", "1 2", "(1", "1+", "pow(1", "x", "1)(", "#", "2pi", "@(", "1.2.3"] {
        for c in ['π', '°', '²', '⁴', '⌊', '⌉', 'é', '€', '\u{1F600}', '\u{3000}'] {
            for shift in 0..4usize {
                for &n in &[1usize, 2, 3, 4, 5, 6, 7, 8, 9, 10, 11, 12, 16, 17, 20, 32, 33, 64] {
                    fit(format!("{}{}{}", prefix, rep("a", shift), rep(&c.to_string(), n)), &mut out);
                    fit(format!("{}{}{}", prefix, rep("+", shift), rep(&c.to_string(), n)), &mut out);
                }
            }
        }
    }
    // exactly 256 and 257 characters of the simplest shapes
    out.push(format!("1{}", rep("+1", 127)) + "+");
    out.push(rep("1", 256));
    out.push(rep("(", 256));
    out.push(rep("-", 256));
    out.sort();
    out.dedup();
    // inputs of exactly 255 and 256 characters (the limit of C01): one long literal, leading zeros, leading
    // blanks, a chain, nesting
    for target in [255usize, 256] {
        out.push(format!("1{}", "0".repeat(target - 1)));
        out.push(format!("{}1", "0".repeat(target - 1)));
        out.push(format!("{}1+1", " ".repeat(target - 3)));
        out.push(format!("{}1", "-".repeat(target - 1)));
        let chain = format!("1{}", "+1".repeat((target - 1) / 2));
        out.push(if chain.len() < target { format!("{}1", chain) } else { chain });
        let n = (target - 1) / 2;
        let core = if 2 * n + 1 == target { "1" } else { "11" };
        out.push(format!("{}{}{}", "(".repeat(n), core, ")".repeat(n)));
        out.push(format!("{}{}{}", "abs(".repeat((target - 1) / 5), "1".repeat(target - 5 * ((target - 1) / 5)), ")".repeat((target - 1) / 5)));
    }

    out
}

/// long aggregate lists (21..64 operands, unsorted structured orders) with the placeholder at the
/// front, in the middle and at the end — with the full placeholder pool this drives NaN, infinities and
/// extreme values through the sort / fold of every aggregate at sizes where std switches algorithms
pub fn agg_long(ev: Ev) -> Vec<String> {
    let mut out = Vec::new();
    if ev == Ev::Cpx {
        return out;
    }
    let mut names: Vec<&str> = vec!["min", "max", "avg", "med", "median"];
    if ev == Ev::I64 {
        names.push("gcd");
        names.push("lcm");
    }
    for &n in &[9usize, 16, 17, 20, 21, 22, 24, 32, 33, 40, 48, 64] {
        let base: Vec<i64> = (0..n as i64).map(|i| (i * 37) % 101 - 50).collect();
        let mut orders: Vec<Vec<i64>> = vec![base.clone(), base.iter().rev().cloned().collect()];
        let mut rot = base.clone();
        rot.rotate_left(n / 3);
        orders.push(rot);
        let mut sorted = base.clone();
        sorted.sort();
        let mut organ: Vec<i64> = sorted.iter().step_by(2).cloned().collect();
        organ.extend(sorted.iter().skip(1).step_by(2).rev().cloned());
        orders.push(organ);
        // whole operands, operands with a fraction, and both kinds alternating (Integer and Float variants meet
        // in eval_number's comparators); the special operand as the placeholder or written out as 0/0
        let kinds: &[u8] = if ev.has_point() { &[0, 1, 2] } else { &[0] };
        let specials: &[&str] = if ev == Ev::F64 || ev == Ev::Num { &["@", "(0/0)"] } else { &["@"] };
        for o in &orders {
            for at_pos in [usize::MAX, 0, n / 2, n - 1] {
                for &kind in kinds {
                    for special in specials {
                        if at_pos == usize::MAX && *special != "@" {
                            continue;
                        }
                        let args = o
                            .iter()
                            .enumerate()
                            .map(|(i, v)| {
                                if i == at_pos {
                                    special.to_string()
                                } else {
                                    let frac = kind == 1 || (kind == 2 && i % 2 == 1);
                                    let t = if frac { format!("{}.5", v.abs()) } else { v.abs().to_string() };
                                    if *v < 0 {
                                        format!("(-{})", t)
                                    } else {
                                        t
                                    }
                                }
                            })
                            .collect::<Vec<_>>()
                            .join(",");
                        for name in &names {
                            let s = format!("{}({})", name, args);
                            if s.chars().count() <= 256 {
                                out.push(s);
                            }
                        }
                    }
                }
            }
        }
    }
    out
}


/// every function name and alias of the evaluator: wrong arities, bad commas, wrong closers,
/// juxtaposition and operator contexts of depth <= 2; plus keyword near-misses at edit distance 1
pub fn per_name(ev: Ev) -> Vec<String> {
    let mut out = Vec::new();
    let names: Vec<(&str, Func)> = func_names(ev).to_vec();
    for (name, f) in &names {
        let good_args = match f.arity() {
            Arity::Fixed(1) => "2",
            Arity::Fixed(_) => "2,3",
            _ => "2,3,5",
        };
        for args in ["", "2", "2,3", "2,3,5", "2,", ",2", "2,,3", "2 3", "(2)", "2,3,"] {
            out.push(format!("{}({})", name, args));
        }
        let call = format!("{}({})", name, good_args);
        for closer in ["", "]", "⌋", "⌉", "))", ",", ")("] {
            out.push(format!("{}({}{}", name, good_args, closer));
        }
        // the name followed by one stray token instead of its opening bracket, then an argument and a closer
        for stray in ["-", "+", ",", "@", "!", "*", "/", "^", ".", "2", "((", ")", "⌊", "°"] {
            out.push(format!("{}{}2)", name, stray));
            out.push(format!("{}{}2.5)", name, stray));
            out.push(format!("{}{}(2)", name, stray));
            out.push(format!("1+{}{}{})*2", name, stray, good_args));
        }
        // the empty call in the contexts of a value (well-formed for the aggregates that accept no argument)
        let empty = format!("{}()", name);
        for ctx in ["{}(3)", "{}3", "2{}", "{}abs(2)", "{}^2", "-{}", "2*{}", "{}+1", "({})", "1+{}(3)", "2{}(3)", "{}{}", "pow({},2)"] {
            out.push(ctx.replace("{}", &empty));
        }
        out.push(name.to_string());
        out.push(format!("{}2", name));
        out.push(format!("{} (2)", name));
        out.push(format!("{}[{}]", name, good_args));
        for ctx in [
            "2{}", "{}(2)", "{}2", "{}^2", "{}²", "-{}", "2^{}", "2*{}", "{}*2", "({})", "{}{}", "2+{}", "{}-2",
            "@{}", "{}@", "2/{}", "abs({})", "pow({},2)", "pow(2,{})",
        ] {
            out.push(ctx.replace("{}", &call));
        }
        if ev.has_factorial() {
            out.push(format!("{}!", call));
            out.push(format!("2!{}", call));
        }
        if ev.has_consts() {
            out.push(format!("pi{}", call));
            out.push(format!("{}pi", call));
        }
        if ev != Ev::Cpx {
            out.push(format!("min({},1)", call));
            out.push(format!("avg({})", call));
        }
        if ev.has_floor_brackets() {
            out.push(format!("⌊{}⌋", call));
            out.push(format!("{}⌈2⌉", call));
        }
        // the keyword cut off by the end of the input (every proper prefix, alone and at the end of an
        // expression), and cut off by a non-letter
        let kwc: Vec<char> = name.chars().collect();
        for n in 1..kwc.len() {
            let pre: String = kwc[..n].iter().collect();
            for ctx in ["{}", "2+{}", "({}", "2{}", "{}(", "{})", "{}2", "{}.", "{} ", "{}π", "{}²", "-{}", "{}@"] {
                out.push(ctx.replace("{}", &pre));
            }
        }
        // keyword near-misses: every deletion, and substitutions / insertions over the keyword letters
        let letters: Vec<char> = "abcdefgilmnopqrstuvwx2_".chars().collect();
        let kw: Vec<char> = name.chars().collect();
        let tail = format!("({})", good_args);
        for i in 0..kw.len() {
            let mut d = kw.clone();
            d.remove(i);
            out.push(format!("{}{}", d.iter().collect::<String>(), tail));
            for &l in &letters {
                if l != kw[i] {
                    let mut s = kw.clone();
                    s[i] = l;
                    out.push(format!("{}{}", s.iter().collect::<String>(), tail));
                }
            }
        }
        for i in 0..=kw.len() {
            for &l in &letters {
                let mut s = kw.clone();
                s.insert(i, l);
                out.push(format!("{}{}", s.iter().collect::<String>(), tail));
            }
        }
    }
    // names of the other evaluators in this evaluator
    for other in ALL_EVS {
        for (name, f) in func_names(other) {
            let good_args = match f.arity() {
                Arity::Fixed(1) => "2",
                Arity::Fixed(_) => "2,3",
                _ => "2,3,5",
            };
            out.push(format!("{}({})", name, good_args));
        }
    }
    for c in ["pi", "π", "e", "i", "rad", "2rad", "2°", "2pi", "pi2", "e2", "2e", "ee", "pie", "pipi", "@@", "2@", "@2", "π2"] {
        out.push(c.to_string());
    }
    out.sort();
    out.dedup();
    out
}


/// a call nested in an argument slot of another call, with every slip of argument count, separator and
/// closer on the inner and on the outer call (the inner slip must not be absorbed by the outer call)
pub fn nested_slips(ev: Ev) -> Vec<String> {
    let mut firsts: Vec<(&str, Func)> = Vec::new();
    for (name, f) in func_names(ev) {
        if !firsts.iter().any(|(_, g)| g == f) {
            firsts.push((name, *f));
        }
    }
    let mut out = Vec::new();
    for (outer, _) in &firsts {
        for (inner, _) in &firsts {
            for slot in ["", "2,", "2,3,"] {
                for iargs in ["", "4", "4,2", "4,2,3"] {
                    for icl in [")", "", ",", "),", "))"] {
                        for tail in ["", ",3", ",3,5", "+1"] {
                            for ocl in [")", ""] {
                                out.push(format!("{}({}{}({}{}{}{}", outer, slot, inner, iargs, icl, tail, ocl));
                            }
                        }
                    }
                }
            }
        }
    }
    // brackets and floor / ceiling brackets as the inner or outer construct
    let mut groups: Vec<(&str, &str)> = vec![("(", ")")];
    if ev.has_floor_brackets() {
        groups.push(("⌊", "⌋"));
        groups.push(("⌈", "⌉"));
    }
    for (outer, _) in &firsts {
        for (o, c) in &groups {
            for iargs in ["4", "4,2", ""] {
                for icl in [*c, "", ","] {
                    for slot in ["", "2,"] {
                        for tail in ["", ",3", ")"] {
                            out.push(format!("{}({}{}{}{}{})", outer, slot, o, iargs, icl, tail));
                            out.push(format!("{}{}({}{}{}{}", o, outer, slot, iargs, icl, tail));
                        }
                    }
                }
            }
        }
    }
    out.sort();
    out.dedup();
    out
}


/// Integer operands beyond 2^53 that no double holds exactly, in exact divisions, remainders and products with a
/// small second operand: quotients q = 2^k + j (k = 50..62, |j| <= 2) times b, and the dividend D = q*b. Integer
/// arithmetic stays exact here while any detour through doubles is off by up to a few thousand.
pub fn big_integers() -> Vec<String> {
    let mut out = Vec::new();
    for k in 50..=62u32 {
        for j in -2i128..=2 {
            let q: i128 = (1i128 << k) + j;
            for b in [2i128, 3, 5, 7, 10, 11, 1000] {
                let d = q * b;
                if d > i64::MAX as i128 {
                    continue;
                }
                out.push(format!("{}/{}", d, b));
                out.push(format!("{}%{}", d, b));
                out.push(format!("{}*{}", q, b));
                out.push(format!("{}/{}*{}", d, b, b));
                out.push(format!("-{}/{}", d, b));
                out.push(format!("(-{})/{}", d, b));
                out.push(format!("{}/(-{})", d, b));
                out.push(format!("(-{})/(-{})", d, b));
                out.push(format!("({}+1)/{}", d, b));
                out.push(format!("({}-1)%{}", d, b));
                out.push(format!("1+{}/{}", d, b));
                out.push(format!("{}/{}-{}", d, b, q));
                out.push(format!("abs(-{})", d));
                out.push(format!("{}+{}", d, b));
                out.push(format!("{}-{}", d, b));
                out.push(format!("{}/{}", d, q));
                out.push(format!("{}%{}", d, q));
            }
        }
    }
    // sums, differences and products that just leave the i64 range: the stated fallback is the double operation on
    // the operands' double values, which differs from rounding the exact result once
    for a in [i64::MAX as i128, i64::MAX as i128 - 1, i64::MAX as i128 - 1000, 9223372036854775000, 1i128 << 62, (1i128 << 62) + 1, 4611686018427388417] {
        for d in [1i128, 2, 511, 512, 513, 1023, 1024, 1025, 1536, 2000, 2047, 2048, 2049, 3071, 3072, 3073, 4096, 1 << 62, (1 << 62) + 1, (1 << 62) + 513, 4611686018427388417] {
            out.push(format!("{}+{}", a, d));
            out.push(format!("{}+{}", d, a));
            out.push(format!("-{}-{}", a, d));
            out.push(format!("(-{})-{}", a, d));
            out.push(format!("{}-(-{})", a, d));
            out.push(format!("(-{})+(-{})", a, d));
        }
        for m in [2i128, 3, 5, 7, 1025, 2049] {
            out.push(format!("{}*{}", a, m));
            out.push(format!("{}*{}", m, a));
            out.push(format!("(-{})*{}", a, m));
            out.push(format!("{}^2", a));
        }
    }
    out.sort();
    out.dedup();
    out
}

/// Runs of adjacent prefix signs: every word over {-, +} of 1..=`max` signs in front of every edge operand (the
/// placeholder over the critical pool, the ends of the range as bracketed texts, literals), alone and inside the
/// contexts that bind tighter or looser than a prefix sign. Each sign is its own operation: `--x` is -(-x), so an
/// inner minus that overflows (or changes the variant, or the sign of a zero) must not be cancelled against the outer one.
pub fn sign_runs(ev: Ev, max: usize) -> Vec<String> {
    let mut runs: Vec<String> = vec![String::new()];
    let mut all: Vec<String> = Vec::new();
    for _ in 0..max {
        let mut next = Vec::new();
        for r in &runs {
            for c in ['-', '+'] {
                next.push(format!("{}{}", r, c));
            }
        }
        all.extend(next.iter().cloned());
        runs = next;
    }
    let mut operands: Vec<String> = vec!["@".into(), "(@)".into(), "0".into(), "1".into(), "7".into(), "(0)".into(), "(1-1)".into(), "(0*-1)".into()];
    match ev {
        Ev::I64 => operands.extend(["9223372036854775807", "(-9223372036854775807-1)", "(-9223372036854775807)", "abs(9223372036854775807)"].map(String::from)),
        Ev::Num => operands.extend(["9223372036854775807", "(-9223372036854775807-1)", "(-9223372036854775807)", "9223372036854775808", "2.5", "(0/1)", "(0.0)"].map(String::from)),
        Ev::Dec => operands.extend(["79228162514264337593543950335", "(-79228162514264337593543950335)", "0.0", "2.50", "(0.00*-1)"].map(String::from)),
        _ => operands.extend(["0.0", "2.5", "(1/0)", "(0/0)", "(-0.0)", "1e308"].map(String::from)),
    }
    if ev == Ev::Cpx {
        operands.extend(["i", "(0*i)", "(2+3i)"].map(String::from));
    }
    let mut inputs: Vec<String> = Vec::new();
    for r in &all {
        for x in &operands {
            inputs.push(format!("{}{}", r, x));
            inputs.push(format!("2*{}{}", r, x));
            inputs.push(format!("1-{}{}", r, x));
            inputs.push(format!("1+{}{}", r, x));
            inputs.push(format!("{}{}^2", r, x));
            inputs.push(format!("{}{}²", r, x));
            inputs.push(format!("2^{}{}", r, x));
            inputs.push(format!("abs({}{})", r, x));
            inputs.push(format!("1/{}{}", r, x));
            inputs.push(format!("({}{})", r, x));
            inputs.push(format!("{}{}*1", r, x));
            inputs.push(format!("{}{}-1", r, x));
        }
    }
    inputs
}


/// The exact decimal expansions of the midpoints between adjacent doubles, each as it stands (a tie), a hair below
/// and a hair above it, and with redundant zeros, in every spelling of the same digits.
fn mag_to_decimal(m: &crate::big::Mag) -> String {
    let mut parts: Vec<u32> = Vec::new();
    let mut cur = m.clone();
    while !cur.is_zero() {
        let (q, r) = cur.divrem_small(1_000_000_000);
        parts.push(r);
        cur = q;
    }
    match parts.pop() {
        None => "0".to_string(),
        Some(top) => {
            let mut t = top.to_string();
            for p in parts.iter().rev() {
                t.push_str(&format!("{:09}", p));
            }
            t
        }
    }
}

/// (integer digits, fraction digits) of m * 2^e, exactly
fn dyadic_digits(m: u64, e: i32) -> (String, String) {
    let mut v = crate::big::Mag::from_u128(m as u128);
    if e >= 0 {
        for _ in 0..e {
            v = v.mul_small(2);
        }
        (mag_to_decimal(&v), String::new())
    } else {
        let k = (-e) as usize;
        for _ in 0..k {
            v = v.mul_small(5);
        }
        let d = mag_to_decimal(&v);
        let d = if d.len() <= k { format!("{}{}", "0".repeat(k + 1 - d.len()), d) } else { d };
        let (ip, fp) = d.split_at(d.len() - k);
        (ip.to_string(), fp.trim_end_matches('0').to_string())
    }
}

pub fn midpoint_literals() -> Vec<String> {
    let mut out = Vec::new();
    let pool: [f64; 30] = [
        0.5, 0.1, 0.2, 0.3, 0.7, 0.25, 0.001, 1e-5, 1e-10, 1e-20, 1e-40, 1.0, 1.5, 2.0, 3.141592653589793, 2.718281828459045, 10.0, 123.456,
        1e10, 4503599627370496.0, 9007199254740992.0, 1e22, 1e23, 1e40, 0.9999999999999999, 0.49999999999999994, 65536.0, 0.0625, 7.0, 1e-7,
    ];
    for x in pool {
        for b in [x.to_bits(), x.to_bits() - 1] {
            // midpoint between the double with bits b and the next one: (2m + 1) * 2^(e - 1)
            let exp = ((b >> 52) & 0x7ff) as i32;
            let frac = b & ((1u64 << 52) - 1);
            let (m, e) = if exp == 0 { (frac, -1074) } else { (frac | (1u64 << 52), exp - 1075) };
            let (ip, fp) = dyadic_digits(2 * m + 1, e - 1);
            if ip.len() + fp.len() > 600 {
                continue;
            }
            let mut fracs: Vec<String> = vec![fp.clone()];
            if !fp.is_empty() {
                // the expansion of an odd multiple of a negative power of two ends in 5
                let below = format!("{}4{}", &fp[..fp.len() - 1], "9".repeat(12));
                fracs.push(below);
                fracs.push(format!("{}1", fp));
                fracs.push(format!("{}{}1", fp, "0".repeat(30)));
                fracs.push(format!("{}{}", fp, "0".repeat(30)));
            } else {
                fracs.push("0".repeat(25) + "1");
                fracs.push("0".repeat(60));
            }
            for f in fracs {
                let ipt = ip.trim_start_matches('0');
                if ipt.is_empty() {
                    out.push(format!(".{}", f));
                    out.push(format!("0.{}", f));
                    out.push(format!("000.{}", f));
                } else if f.is_empty() {
                    out.push(ipt.to_string());
                    out.push(format!("{}.", ipt));
                    out.push(format!("0{}", ipt));
                } else {
                    out.push(format!("{}.{}", ipt, f));
                    out.push(format!("00{}.{}", ipt, f));
                }
            }
            if fp.is_empty() {
                // an integer midpoint: one below
                out.push(format!("{}.{}", {
                    let v = crate::big::Mag::from_decimal_digits(&ip).sub(&crate::big::Mag::from_u128(1));
                    mag_to_decimal(&v)
                }, "9".repeat(30)));
            }
        }
    }
    out
}


/// The operands on which Euclid's algorithm runs longest: neighbouring Fibonacci numbers up to F(92) < 2^63
/// (91 remainder steps), their multiples, negatives, both orders, triples, and with the placeholder.
pub fn fibonacci_gcd() -> Vec<String> {
    let mut fib: Vec<i128> = vec![1, 1];
    while fib.len() < 93 {
        let n = fib.len();
        fib.push(fib[n - 1] + fib[n - 2]);
    }
    let mut fl: Vec<String> = Vec::new();
    for n in 2..92usize {
        let (a, b, c) = (fib[n], fib[n + 1], fib[n - 1]);
        if b > i64::MAX as i128 {
            break;
        }
        for name in ["gcd", "lcm"] {
            fl.push(format!("{}({},{})", name, a, b));
            fl.push(format!("{}({},{})", name, b, a));
            fl.push(format!("{}(-{},{})", name, b, a));
            fl.push(format!("{}({},{},{})", name, b, a, c));
            fl.push(format!("{}({},{},{})", name, c, b, a));
            for k in [2i128, 3, 6, 1000003] {
                if b * k <= i64::MAX as i128 {
                    fl.push(format!("{}({},{})", name, a * k, b * k));
                    fl.push(format!("{}({},{})", name, b * k, a * k));
                }
            }
            fl.push(format!("{}({},@)", name, b));
            fl.push(format!("{}(@,{})", name, a));
        }
    }
    fl
}

/// Multi-node idioms that a "fusing" evaluator could compute through one library call (hypot, fma, expm1, ln_1p,
/// atan2, cbrt, ...) or simplify algebraically ((a/b)*b, sqrt(x)^2, x-x): every operation must still be applied node
/// by node. Operands are awkward doubles (inexact decimals, huge and tiny magnitudes, zeros, non-finite values written
/// as quotients), all ordered pairs; triples over a smaller pool.
pub fn idioms(ev: Ev) -> Vec<String> {
    let int_only = ev == Ev::I64;
    let mut ops: Vec<String> = if int_only {
        ["0", "1", "2", "3", "7", "10", "(-1)", "(-3)", "3037000500", "4611686018427387904", "9223372036854775807", "(-9223372036854775807-1)", "9007199254740993", "63", "64"]
            .iter()
            .map(|s| s.to_string())
            .collect()
    } else {
        ["0", "1", "2", "3", "0.1", "0.4", "0.7", "0.3", "1.5", "(1/3)", "(-0.1)", "(-2)", "(-0.0)", "10", "100", "0.001", "1000000", "0.000001", "9007199254740993", "123456.789"]
            .iter()
            .map(|s| s.to_string())
            .collect()
    };
    match ev {
        Ev::F64 | Ev::Num | Ev::Cpx => {
            for s in ["(10^200)", "(10^-200)", "(10^154)", "(10^-162)", "(1/0)", "(-1/0)", "(0/0)", "(10^308)", "(2^-1074)", "pi", "e"] {
                ops.push(s.to_string());
            }
        }
        Ev::Dec => {
            for s in ["79228162514264337593543950335", "0.0000000000000000000000000001", "(10^14)", "(10^-14)", "1.10", "2.50"] {
                ops.push(s.to_string());
            }
        }
        _ => {}
    }
    if ev == Ev::Cpx {
        for s in ["i", "(1+i)", "(0.1-0.4i)", "(-i)"] {
            ops.push(s.to_string());
        }
    }
    let two: Vec<&str> = if int_only {
        vec![
            "{a}*{b}/{b}", "{a}/{b}*{b}", "{a}^2-{b}^2", "({a}+{b})*({a}-{b})", "{a}*{a}+{b}*{b}", "{a}+{b}-{b}", "{a}-{b}+{b}", "{a}<<{b}>>{b}", "{a}>>{b}<<{b}", "{a}%{b}+{a}/{b}*{b}",
            "{a}*{b}%{b}", "({a}&{b})|({a}&{b})", "{a}-{a}+{b}", "abs({a})*sgn({a})+{b}", "{a}^2/{a}+{b}", "-{a}+{b}", "{b}-{a}", "{a}*{b}-{b}*{a}", "{a}²+{b}²", "sqrt({a}^2+{b}^2)", "sqrt({a}*{a})+{b}",
        ]
    } else {
        vec![
            "sqrt({a}^2+{b}^2)", "sqrt({a}²+{b}²)", "sqrt({a}*{a}+{b}*{b})", "sqrt(pow({a},2)+pow({b},2))", "{a}*{b}/{b}", "{a}/{b}*{b}", "{a}^2-{b}^2", "({a}+{b})*({a}-{b})", "{a}+{b}-{b}", "{a}-{b}+{b}",
            "atan({a}/{b})", "exp({a})*exp({b})", "exp({a}+{b})", "ln({a})+ln({b})", "ln({a}*{b})", "ln({a})/ln({b})", "{a}^{b}*{a}", "sqrt({a})*sqrt({b})", "sqrt({a}*{b})", "{a}*{b}-{b}*{a}", "{a}/{b}-{a}/{b}",
            "sin({a})/cos({a})+{b}", "{a}^0.5*{b}", "{a}^(1/3)+{b}", "1/sqrt({a})+{b}", "exp({a})-1+{b}", "ln(1+{a})+{b}", "ln({a}+1)-{b}", "1-cos({a})+{b}", "sqrt({a})^2+{b}", "sqrt({a}^2)+{b}", "exp(ln({a}))+{b}",
            "ln(exp({a}))+{b}", "abs({a})^2-{b}", "{a}*{a}*{a}+{b}", "{a}^3+{b}", "10^{a}+{b}", "2^{a}*{b}", "e^{a}-{b}", "{a}-{a}+{b}", "{a}/{a}*{b}", "({a}+{b})/2", "{a}/2+{b}/2", "{a}%{b}+{b}", "mod({a},{b})-{a}",
            "sinh({a})+cosh({a})-{b}", "{a}*(1/{b})", "1/(1/{a})+{b}",
        ]
    };
    let three: Vec<&str> = if int_only {
        vec!["{a}*{b}+{c}", "{a}+{b}*{c}", "{a}*{b}-{c}", "{a}*{b}/{c}", "{a}/{c}*{b}", "({a}+{b})%{c}", "{a}*{b}%{c}", "{a}-{b}-{c}", "{a}-({b}+{c})"]
    } else {
        vec!["{a}*{b}+{c}", "{a}+{b}*{c}", "{a}*{b}-{c}", "{c}-{a}*{b}", "{a}*{b}/{c}", "{a}/{c}*{b}", "{a}+{b}+{c}", "{a}+({b}+{c})", "{a}*{b}*{c}", "{a}*({b}*{c})", "sqrt({a}^2+{b}^2+{c}^2)", "({a}+{b})*{c}", "{a}*{c}+{b}*{c}"]
    };
    let mut out = Vec::new();
    for a in &ops {
        for b in &ops {
            for t in &two {
                out.push(t.replace("{a}", a).replace("{b}", b));
            }
        }
    }
    let small: Vec<&String> = ops.iter().filter(|s| !s.contains("^-") || s.len() < 9).take(if int_only { 12 } else { 14 }).collect();
    let extra: Vec<String> = if int_only { vec!["9223372036854775807".into(), "4611686018427387904".into()] } else if ev == Ev::Dec { vec!["79228162514264337593543950335".into(), "0.0000000000000000000000000001".into()] } else { vec!["(10^200)".into(), "(10^-200)".into(), "(10^308)".into()] };
    let pool3: Vec<&String> = small.into_iter().chain(extra.iter()).collect();
    for a in &pool3 {
        for b in &pool3 {
            for c in &pool3 {
                for t in &three {
                    out.push(t.replace("{a}", a).replace("{b}", b).replace("{c}", c));
                }
            }
        }
    }
    out.sort();
    out.dedup();
    out
}

/// Every one-argument function (and the root / log / power shapes) on integers that an "exact result" fast path would
/// single out: perfect squares, cubes, powers of two and of ten beyond 2^53, and their neighbours one above and below
/// (an integer square root that is right on squares can still loop or err on k^2 - 1).
pub fn special_integers(ev: Ev) -> Vec<String> {
    let mut vals: Vec<i128> = Vec::new();
    for k in [1i128 << 27, (1 << 27) + 1, 1 << 28, 1 << 29, 1 << 30, (1 << 30) + 7, 1 << 31, 94906266, 94906267, 100000000, 1000000000, 3037000499, 2147483647, 123456789] {
        vals.extend([k * k - 1, k * k, k * k + 1]);
    }
    for k in [1i128 << 18, 1 << 19, 1 << 20, 2097151, 1000000, 208063, 1234567] {
        vals.extend([k * k * k - 1, k * k * k, k * k * k + 1]);
    }
    for e in 53..=62u32 {
        vals.extend([(1i128 << e) - 1, 1i128 << e, (1i128 << e) + 1]);
    }
    for e in 16..=18u32 {
        let p = 10i128.pow(e);
        vals.extend([p - 1, p, p + 1]);
    }
    vals.extend([2432902008176640000 - 1, 2432902008176640000, 2432902008176640000 + 1, i64::MAX as i128 - 1, i64::MAX as i128]);
    vals.retain(|v| *v <= i64::MAX as i128);
    vals.sort();
    vals.dedup();
    let mut out = Vec::new();
    let mut seen: Vec<&str> = Vec::new();
    for (name, f) in func_names(ev) {
        if seen.contains(name) {
            continue;
        }
        seen.push(name);
        if let Arity::Fixed(1) = f.arity() {
            for v in &vals {
                out.push(format!("{}({})", name, v));
                out.push(format!("{}(-{})", name, v));
            }
        }
    }
    for v in &vals {
        for t in ["root(2,{})", "root(3,{})", "root(4,{})", "pow({},0.5)", "{}^0.5", "{}^(1/2)", "{}^(1/3)", "log({},2)", "log({},10)", "log({},4)", "pow({},2)", "{}^2", "{}²", "{}%1000", "{}/3", "{}*3", "min({},{}.0)", "max({},{}.0)", "med({})", "avg({})", "{}-{}.0"] {
            out.push(t.replace("{}", &v.to_string()));
        }
    }
    out
}

/// Plausible function names and constants that no evaluator offers (synonyms, long forms, names from other calculators
/// and from libm): each must be rejected in every calling shape — a keyword table that quietly grew an alias is wrong on
/// exactly one word. Names that the evaluator does offer are left out.
pub fn plausible_names(ev: Ev) -> Vec<String> {
    let names = [
        "average", "mean", "minimum", "maximum", "sum", "product", "prod", "count", "len", "absolute", "fabs", "sqr", "square", "cube", "cbrt", "hypot", "log10", "log2", "ln1p", "log1p", "expm1", "exp10",
        "ceiling", "roundup", "rounddown", "int", "frac", "fract", "sec", "csc", "cot", "asec", "acsc", "acot", "sech", "csch", "coth", "arcsin", "arccos", "arctan", "arcsinh", "arccosh", "arctanh", "arsin", "arcos",
        "artan", "arsec", "tg", "ctg", "arctg", "sgnum", "signof", "neg", "negate", "inv", "recip", "rem", "remainder", "fmod", "modulo", "div", "quot", "gamma", "lgamma", "tgamma", "factorial", "fact", "fib",
        "binom", "ncr", "npr", "choose", "comb", "perm", "deg", "degrees", "radians", "todeg", "torad", "rand", "random", "tau", "phi", "inf", "infinity", "nan", "euler", "lambert", "lambertw", "productlog", "w0", "wm1",
        "erf", "erfc", "sinc", "clamp", "lerp", "mode", "var", "variance", "std", "stddev", "stdev", "norm", "arg", "angle", "phase", "conj", "re", "im", "real", "imag", "polar", "cis", "gcf", "hcf", "lcd", "bitand",
        "bitor", "xor", "bitxor", "not", "shl", "shr", "and", "or", "true", "false", "if", "total", "power", "nthroot", "nroot", "logb", "lg", "ld", "fix", "rint", "nearbyint", "isqrt", "ipow", "ilog2", "ilog10", "mag",
        "ans", "x", "y", "z", "a", "b", "c", "n", "t", "j", "exp1", "log_2", "sqrt2", "root2", "root3", "mid", "middle", "avrg", "avge", "medium", "mediane", "truncat", "truncated", "rounded", "floored", "ceil2",
        "sinus", "cosinus", "tangent", "sine", "cosine", "asinus", "sinh2", "atan3", "atan1", "pow2", "pow10", "powr", "sqroot", "squareroot", "lnx", "logn", "loge", "log_e", "exp2x", "gcd2", "lcm2", "ggt", "kgv",
        "pgcd", "ppcm", "mcd", "mcm", "signe", "signum2", "abs2", "absval", "modulus", "PI", "Pi", "E", "Sin", "SIN", "Abs", "ABS", "Sqrt", "SQRT", "Min", "MAX", "Avg", "AVG", "Floor", "Rad", "RAD", "Deg", "I",
    ];
    let offered: Vec<&str> = func_names(ev).iter().map(|(n, _)| *n).collect();
    let mut out = Vec::new();
    for n in names {
        if offered.contains(&n) || ["pi", "e", "w", "rad"].contains(&n) || (ev == Ev::Cpx && n == "i") {
            continue;
        }
        for t in ["{}(1)", "{}(1,2)", "{}(1,2,3)", "{}()", "{}", "2{}(3)", "{}1", "1+{}(2)", "{}(@)", "(2){}", "{}(1)+1", "-{}(4)"] {
            out.push(t.replace("{}", n));
        }
    }
    out
}
