//! Input families shared by the explorer (vx) and the per-feature-subset probe (featprobe).
use crate::vocab::*;

/// argument texts at which some function has a branch point, a pole, a sign change or a range limit
pub fn critical_texts(ev: Ev) -> Vec<String> {
    let mut t: Vec<&str> = vec![
        "0", "1", "(-1)", "2", "(-2)", "3", "20", "21", "27", "28", "63", "64", "65", "66", "67", "(-66)", "95", "96", "143", "150", "170", "171", "(-171)", "709", "710", "(-745)", "1023", "1024", "(-1074)",
        "(-1075)", "4294967296", "9007199254740993", "9223372036854775807", "(-9223372036854775807)", "@",
    ];
    if ev.has_point() {
        t.extend([
            "0.5", "(-0.5)", "1.5", "(-1.5)", "(-170.5)", "150.5", "(-150.5)", "26.5", "27.5", "66.5", "(-0.36787944117144233)", "(-0.36787944117144232)", "(-0.3678794411714423215955237702)",
            "(-0.3678794411714423215955237701)", "(-0.3678794411714423215955237703)", "(-0.3678794411714423)", "(-0.36787944117144)", "(-0.367879441171443)", "0.36787944117144233",
            "1.5707963267948966", "(-1.5707963267948966)", "1.5707963267948966192313216916", "3.141592653589793", "3.1415926535897932384626433833", "6.283185307179586", "2.718281828459045",
            "2.7182818284590452353602874714", "0.9999999999999999", "1.0000000000000002", "(-0.9999999999999999)", "0.9999999999999999999999999999", "(-0.9999999999999999999999999999)",
            "0.0000000000000000000000000001", "709.782712893384", "170.6", "171.7", "79228162514264337593543950335",
        ]);
    }
    if ev.has_consts() {
        t.extend(["e", "pi", "(-pi)", "(-e)", "(pi/2)", "(-pi/2)", "(pi/4)", "(2*pi)", "(3*pi/2)", "(1/e)", "(-1/e)", "(-(1/e))", "(-exp(-1))", "(e^-1)", "(-e^-1)", "(-1/exp(1))", "(pi/6)", "(e-1)", "(1-e)"]);
    }
    if ev == Ev::Cpx {
        t.extend(["i", "(-i)", "(1+i)", "(-1+0i)", "(-1-0i)", "(2i)", "(-2i)", "(i*pi)", "(i*pi/2)", "(1+0i)", "(0.5i)"]);
    }
    let mut v: Vec<String> = t.iter().map(|s| s.to_string()).collect();
    v.sort();
    v.dedup();
    v
}

/// every function name and alias of the evaluator applied to the critical arguments (one argument: all of
/// them; two: all ordered pairs; variadic: pairs and triples over a sub-list), plus the postfix operators
pub fn critical(ev: Ev, triples: bool) -> Vec<String> {
    let crit = critical_texts(ev);
    let mut out = Vec::new();
    let names: Vec<(&str, Func)> = func_names(ev).to_vec();
    let short: Vec<&String> = crit.iter().filter(|c| c.len() <= 9 || c.contains("e)") || c.contains("367879441171442321595")).collect();
    let near = if ev.has_point() { neighbourhoods() } else { Vec::new() };
    for (name, f) in &names {
        match f.arity() {
            Arity::Fixed(1) => {
                for c in &crit {
                    out.push(format!("{}({})", name, c));
                }
                for c in &near {
                    out.push(format!("{}({})", name, c));
                }
            }
            Arity::Fixed(_) => {
                for a in &crit {
                    for b in &crit {
                        out.push(format!("{}({},{})", name, a, b));
                    }
                }
            }
            _ => {
                for a in &crit {
                    out.push(format!("{}({})", name, a));
                    for b in &crit {
                        out.push(format!("{}({},{})", name, a, b));
                    }
                }
                if triples {
                    for a in &short {
                        for b in &short {
                            for c in &short {
                                out.push(format!("{}({},{},{})", name, a, b, c));
                            }
                        }
                    }
                }
            }
        }
    }
    for c in &crit {
        if ev.has_factorial() {
            out.push(format!("{}!", c));
        }
        if ev.has_deg_rad() {
            out.push(format!("{}°", c));
            out.push(format!("{}rad", c));
        }
        if ev.has_floor_brackets() {
            out.push(format!("⌊{}⌋", c));
            out.push(format!("⌈{}⌉", c));
        }
        out.push(format!("{}²", c));
        out.push(format!("-{}", c));
        for d in &crit {
            for op in ["^", "/", "%", "*", "+", "-"] {
                out.push(format!("{}{}{}", c, op, d));
            }
        }
    }
    out.sort();
    out.dedup();
    out
}


/// decimal literals c +- m * 10^-j (m = 1, 3, 7; j = 1..20) around the centres at which some one-argument
/// function changes regime: -1/e (Lambert W), -1, 0, 0.5, 1, 2 — exact decimal arithmetic on digit strings
pub fn neighbourhoods() -> Vec<String> {
    // centres as (sign, integer of 28 fraction digits)
    let scale: u128 = 10u128.pow(28);
    let centres: [(bool, u128); 6] = [
        (true, 3678794411714423215955237702),
        (true, scale),
        (false, 0),
        (false, scale / 2),
        (false, scale),
        (false, 2 * scale),
    ];
    let mut out = Vec::new();
    for (neg, c) in centres {
        let c = c as i128 * if neg { -1 } else { 1 };
        for j in 1..=20u32 {
            for m in [1i128, 3, 7] {
                for sgn in [-1i128, 1] {
                    let v = c + sgn * m * 10i128.pow(28 - j);
                    let a = v.unsigned_abs();
                    let mut t = format!("{}.{:028}", a / scale, a % scale);
                    while t.ends_with('0') {
                        t.pop();
                    }
                    if t.ends_with('.') {
                        t.pop();
                    }
                    out.push(if v < 0 { format!("(-{})", t) } else { t });
                }
            }
        }
    }
    out.sort();
    out.dedup();
    out
}
