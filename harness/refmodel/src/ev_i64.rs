//! Reference evaluator for eval_i64: exact arithmetic in i128, then the rules of C06.
use crate::parse::*;
use crate::rv::*;
use crate::vocab::Func;

type R = RV<i64>;

const MIN: i128 = i64::MIN as i128;
const MAX: i128 = i64::MAX as i128;

fn fit(v: i128, q: Q) -> R {
    if v >= MIN && v <= MAX {
        RV::Val(v as i64, q)
    } else {
        RV::MustErr("result does not fit i64")
    }
}

pub fn lit(text: &str) -> Option<i64> {
    // digits only; more than 19 digits cannot fit anyway (after stripping leading zeros)
    let t = text.trim_start_matches('0');
    if t.is_empty() {
        return Some(0);
    }
    if t.len() > 19 {
        return None;
    }
    let v: i128 = t.parse().ok()?;
    if v <= MAX {
        Some(v as i64)
    } else {
        None
    }
}

pub fn pow_i128(base: i128, exp: u64) -> Option<i128> {
    // exact power while it fits i64, None as soon as it leaves the range
    if exp == 0 {
        return Some(1);
    }
    if base == 0 || base == 1 {
        return Some(base);
    }
    if base == -1 {
        return Some(if exp % 2 == 0 { 1 } else { -1 });
    }
    if exp > 64 {
        return None;
    }
    let mut r: i128 = 1;
    for _ in 0..exp {
        r = r.checked_mul(base)?;
        if r < MIN || r > MAX {
            return None;
        }
    }
    Some(r)
}

fn pow(a: i64, b: i64, q: Q) -> R {
    if b < 0 || b > u32::MAX as i64 {
        return RV::Unspec("U3: exponent outside 0..4294967295");
    }
    match pow_i128(a as i128, b as u64) {
        Some(v) => fit(v, q),
        None => RV::MustErr("power does not fit i64"),
    }
}

pub fn factorial(n: i64, q: Q) -> R {
    if n < 0 {
        return RV::Unspec("U3: factorial of a negative integer");
    }
    if n > 20 {
        return RV::MustErr("factorial does not fit i64");
    }
    let mut r: i128 = 1;
    for i in 2..=n as i128 {
        r *= i;
    }
    fit(r, q)
}

/// real-valued function: an integer within 1 of the real result when that is below 2^53
fn real_fn(real: f64, q: Q) -> R {
    if !real.is_finite() {
        return RV::Unspec("U3: no finite real value");
    }
    if real.abs() >= 9007199254740992.0 {
        return RV::Unspec("U3: real result of magnitude >= 2^53");
    }
    // "within 1 of the real result": the oracle itself is a double-precision function value (< 1 ulp from
    // the real result for the host libm), and so is whatever the subject rounds, hence 1 + 3 ulp
    let tol = 1.0 + 3.0 * real.abs() * f64::EPSILON;
    match q {
        Q::Exact => RV::Val(real.round() as i64, Q::Near(real, tol)),
        _ => RV::Val(real.round() as i64, Q::Skip),
    }
}

pub fn gcd_i128(a: i128, b: i128) -> i128 {
    let (mut a, mut b) = (a.abs(), b.abs());
    while b != 0 {
        let t = a % b;
        a = b;
        b = t;
    }
    a
}

pub fn eval(n: &Node, at: i64) -> R {
    match &n.e {
        Expr::Lit { text, .. } => match lit(text) {
            Some(v) => RV::exact(v),
            None => RV::MustErr("literal does not fit i64"),
        },
        Expr::At => RV::exact(at),
        Expr::ImagUnit | Expr::Pi | Expr::E => RV::Unspec("not i64"),
        Expr::Neg(x) => match eval(x, at) {
            RV::Val(_, q) if q != Q::Exact => RV::Unspec("U3: negation of an approximate integer"),
            RV::Val(v, q) => {
                if v == i64::MIN {
                    RV::MustErr("-MIN overflows")
                } else {
                    RV::Val(-v, q)
                }
            }
            o => o,
        },
        Expr::Pos(x) => eval(x, at),
        Expr::Group(GroupKind::Paren, x) => eval(x, at),
        Expr::Group(_, _) => RV::Unspec("not i64"),
        Expr::Sup(x, d) => match eval(x, at) {
            RV::Val(_, q) if q != Q::Exact => RV::Unspec("U3: power of an approximate integer"),
            RV::Val(v, q) => match lit(d) {
                Some(e) => pow(v, e, q),
                None => {
                    // exponent literal beyond i64: either a literal error or an overflow, Err both ways
                    // unless the power is trivially representable
                    RV::Unspec("U2: superscript exponent beyond i64")
                }
            },
            o => o,
        },
        Expr::Post(PostOp::Fact, x) => match eval(x, at) {
            RV::Val(_, q) if q != Q::Exact => RV::Unspec("U3: factorial of an approximate integer"),
            RV::Val(v, q) => factorial(v, q),
            o => o,
        },
        Expr::Post(_, _) => RV::Unspec("not i64"),
        Expr::Bin(b, l, r) => {
            let (a, aq) = match eval(l, at) {
                RV::Val(v, q) => (v, q),
                o => return o,
            };
            let (c, cq) = match eval(r, at) {
                RV::Val(v, q) => (v, q),
                o => return o,
            };
            if aq != Q::Exact || cq != Q::Exact {
                // an operand known only to within 1: whether this step overflows or divides by zero is open
                return RV::Unspec("U3: integer step on an operand that is only specified to within 1");
            }
            let q = Q::Exact;
            let (x, y) = (a as i128, c as i128);
            match b {
                BinOp::Add => fit(x + y, q),
                BinOp::Sub => fit(x - y, q),
                BinOp::Mul | BinOp::Impl => fit(x * y, q),
                BinOp::Div => {
                    if y == 0 {
                        RV::MustErr("division by zero")
                    } else if x == MIN && y == -1 {
                        // 2^63 does not fit: C06 "never returns a wrapped or otherwise fabricated value", and every Ok value would be one
                        RV::MustErr("MIN / -1 = 2^63 does not fit i64")
                    } else {
                        fit(x / y, q)
                    }
                }
                BinOp::Rem => {
                    if y == 0 {
                        RV::MustErr("remainder by zero")
                    } else {
                        fit(x % y, q)
                    }
                }
                BinOp::Pow => pow(a, c, q),
                BinOp::And => RV::Val(a & c, q),
                BinOp::Or => RV::Val(a | c, q),
                BinOp::Shl => {
                    if !(0..=63).contains(&c) {
                        RV::MustErr("shift count outside 0..63")
                    } else {
                        let v = x * (1i128 << c);
                        if v >= MIN && v <= MAX {
                            RV::Val(v as i64, q)
                        } else {
                            RV::Unspec("U3: x<<y when x*2^y does not fit")
                        }
                    }
                }
                BinOp::Shr => {
                    if !(0..=63).contains(&c) {
                        RV::MustErr("shift count outside 0..63")
                    } else {
                        RV::Val((x.div_euclid(1i128 << c)) as i64, q)
                    }
                }
            }
        }
        Expr::Call(f, args) => {
            let mut vs: Vec<i64> = Vec::new();
            let q = Q::Exact;
            for a in args {
                match eval(a, at) {
                    RV::Val(v, vq) => {
                        if vq != Q::Exact {
                            return RV::Unspec("U3: function of an operand that is only specified to within 1");
                        }
                        vs.push(v);
                    }
                    o => return o,
                }
            }
            use Func::*;
            match f {
                Abs => {
                    if vs[0] == i64::MIN {
                        RV::MustErr("abs(MIN) overflows")
                    } else {
                        RV::Val(vs[0].abs(), q)
                    }
                }
                Sign => RV::Val(vs[0].signum(), q),
                Mod => {
                    if vs[1] == 0 {
                        RV::MustErr("remainder by zero")
                    } else {
                        fit(vs[0] as i128 % vs[1] as i128, q)
                    }
                }
                Pow => pow(vs[0], vs[1], q),
                Sqrt => {
                    if vs[0] < 0 {
                        RV::Unspec("U3: sqrt of a negative integer")
                    } else {
                        real_fn((vs[0] as f64).sqrt(), q)
                    }
                }
                Root => {
                    // root(n, x) = x^(1/n)
                    if vs[1] < 0 || vs[0] <= 0 {
                        RV::Unspec("U3: root outside the positive reals")
                    } else {
                        real_fn((vs[1] as f64).powf(1.0 / vs[0] as f64), q)
                    }
                }
                Ln => {
                    if vs[0] <= 0 {
                        RV::Unspec("U3: ln of a non-positive integer")
                    } else {
                        real_fn((vs[0] as f64).ln(), q)
                    }
                }
                Lb => {
                    if vs[0] <= 0 {
                        RV::Unspec("U3: lb of a non-positive integer")
                    } else {
                        real_fn((vs[0] as f64).log2(), q)
                    }
                }
                Log => {
                    if vs[0] <= 0 || vs[1] <= 1 {
                        RV::Unspec("U3: log outside its real domain")
                    } else {
                        real_fn((vs[0] as f64).ln() / (vs[1] as f64).ln(), q)
                    }
                }
                Exp => real_fn((vs[0] as f64).exp(), q),
                Exp2 => real_fn((vs[0] as f64).exp2(), q),
                Min => RV::Val(*vs.iter().min().unwrap(), q),
                Max => RV::Val(*vs.iter().max().unwrap(), q),
                Avg => {
                    if vs.is_empty() {
                        return RV::Val(0, Q::Exact);
                    }
                    // the mean of arguments that fit always fits: the sum is only an implementation detail
                    let mut s: i128 = 0;
                    for v in &vs {
                        s += *v as i128;
                    }
                    fit(s / vs.len() as i128, q)
                }
                Med => {
                    let mut s = vs.clone();
                    s.sort();
                    let l = s.len();
                    if l % 2 == 1 {
                        RV::Val(s[l / 2], q)
                    } else {
                        let t = s[l / 2] as i128 + s[l / 2 - 1] as i128;
                        fit(t / 2, q)
                    }
                }
                Gcd => {
                    // of the magnitudes: only the final value has to fit (gcd(MIN, 0, -37) = 37)
                    let mut g: i128 = 0;
                    for v in &vs {
                        g = gcd_i128(g, *v as i128);
                    }
                    if g > MAX {
                        // no i64 is the greatest common divisor, so no Ok value can be "the gcd of the arguments"
                        return RV::MustErr("the gcd (2^63) does not fit i64");
                    }
                    RV::Val(g as i64, q)
                }
                Lcm => {
                    // a zero argument makes it 0 wherever it stands; otherwise the running value never exceeds
                    // the final one
                    if vs.iter().any(|v| *v == 0) {
                        return RV::Val(0, q);
                    }
                    let mut l: i128 = 1;
                    for v in &vs {
                        let b = (*v as i128).abs();
                        l = l / gcd_i128(l, b) * b;
                        if l > MAX {
                            // no i64 is the least common multiple, so no Ok value can be "the lcm of the arguments"
                            return RV::MustErr("the lcm does not fit i64");
                        }
                    }
                    RV::Val(l as i64, q)
                }
                _ => RV::Unspec("not i64"),
            }
        }
    }
}
