//! Reference parser: shunting-yard with explicit operator and operand stacks.
//! Built from the precedence table of C04 and the juxtaposition rules of C12 —
//! deliberately not the recursive precedence climbing the subject uses.
use crate::lex::*;
use crate::vocab::*;

#[derive(Clone, Copy, PartialEq, Eq, Debug, Hash)]
pub enum BinOp {
    Or,
    And,
    Shl,
    Shr,
    Add,
    Sub,
    Mul,
    Div,
    Rem,
    Pow,
    /// implicit product (juxtaposition)
    Impl,
}

#[derive(Clone, Copy, PartialEq, Eq, Debug, Hash)]
pub enum PostOp {
    Fact,
    Deg,
    Rad,
}

#[derive(Clone, Copy, PartialEq, Eq, Debug, Hash)]
pub enum GroupKind {
    Paren,
    Floor,
    Ceil,
}

#[derive(Clone, Debug, PartialEq)]
pub enum Expr {
    /// literal text as written (digits, optional point), imaginary suffix
    Lit { text: String, imag: bool },
    ImagUnit,
    At,
    Pi,
    E,
    Neg(Box<Node>),
    Pos(Box<Node>),
    Bin(BinOp, Box<Node>, Box<Node>),
    Post(PostOp, Box<Node>),
    /// base, exponent digits
    Sup(Box<Node>, String),
    Group(GroupKind, Box<Node>),
    Call(Func, Vec<Node>),
}

#[derive(Clone, Debug, PartialEq)]
pub struct Node {
    pub e: Expr,
    /// char span in the whitespace-stripped input
    pub span: (usize, usize),
}

#[derive(Clone, Debug, PartialEq)]
pub enum Parsed {
    WellFormed(Node),
    /// rejected at token index k (k == number of tokens means "at end of input")
    Malformed(usize),
    /// the statements do not say whether this input is accepted (reason)
    Unspecified(&'static str),
}

// precedence levels, loosest to tightest
const P_OR: u8 = 1;
const P_AND: u8 = 2;
const P_SHIFT: u8 = 3;
const P_ADD: u8 = 4;
const P_MUL: u8 = 5;
const P_POW: u8 = 6;
const P_SIGN: u8 = 7;
const P_FUNC: u8 = 8;

#[derive(Clone, Copy, Debug)]
enum StackOp {
    Bin(BinOp, u8, usize),
    Neg(usize),
    Pos(usize),
}

impl StackOp {
    fn prec(&self) -> u8 {
        match self {
            StackOp::Bin(_, p, _) => *p,
            StackOp::Neg(_) | StackOp::Pos(_) => P_SIGN,
        }
    }
}

#[derive(Clone, Copy, PartialEq, Debug)]
enum Last {
    Lit,
    ImagUnit,
    Group,
    Call,
    Fact,
    /// `@`, constants, superscripts, ° and rad: never take part in a juxtaposition
    Closed,
}

enum PErr {
    Malformed(usize),
    Unspecified(&'static str),
}

struct P<'a> {
    ev: Ev,
    lx: &'a Lexed,
    pos: usize,
}

fn bin_of(ev: Ev, t: &Tok) -> Option<(BinOp, u8)> {
    Some(match t {
        Tok::Bar if ev.has_bitops() => (BinOp::Or, P_OR),
        Tok::Amp if ev.has_bitops() => (BinOp::And, P_AND),
        Tok::Shl if ev.has_bitops() => (BinOp::Shl, P_SHIFT),
        Tok::Shr if ev.has_bitops() => (BinOp::Shr, P_SHIFT),
        Tok::Plus => (BinOp::Add, P_ADD),
        Tok::Minus => (BinOp::Sub, P_ADD),
        Tok::Star => (BinOp::Mul, P_MUL),
        Tok::Slash => (BinOp::Div, P_MUL),
        Tok::Percent if ev.has_percent() => (BinOp::Rem, P_MUL),
        Tok::Caret => (BinOp::Pow, P_POW),
        _ => return None,
    })
}

impl<'a> P<'a> {
    fn peek(&self) -> Option<&Tok> {
        self.lx.toks.get(self.pos)
    }
    fn end_char(&self) -> usize {
        if self.pos == 0 {
            0
        } else {
            self.lx.spans[self.pos - 1].1
        }
    }
    fn start_char(&self) -> usize {
        if self.pos < self.lx.spans.len() {
            self.lx.spans[self.pos].0
        } else {
            self.lx.chars.len()
        }
    }

    fn reduce_top(ops: &mut Vec<StackOp>, out: &mut Vec<Node>) {
        let op = ops.pop().unwrap();
        match op {
            StackOp::Bin(b, _, _) => {
                let r = out.pop().unwrap();
                let l = out.pop().unwrap();
                let span = (l.span.0, r.span.1);
                out.push(Node {
                    e: Expr::Bin(b, Box::new(l), Box::new(r)),
                    span,
                });
            }
            StackOp::Neg(s) => {
                let x = out.pop().unwrap();
                let span = (s, x.span.1);
                out.push(Node {
                    e: Expr::Neg(Box::new(x)),
                    span,
                });
            }
            StackOp::Pos(s) => {
                let x = out.pop().unwrap();
                let span = (s, x.span.1);
                out.push(Node {
                    e: Expr::Pos(Box::new(x)),
                    span,
                });
            }
        }
    }

    /// Parses one expression; stops (without consuming) at the first token that cannot continue it.
    fn expr(&mut self) -> Result<Node, PErr> {
        let mut ops: Vec<StackOp> = Vec::new();
        let mut out: Vec<Node> = Vec::new();
        let mut want_operand = true;
        let mut last = Last::Closed;
        loop {
            if want_operand {
                let start = self.start_char();
                let t = match self.peek() {
                    Some(t) => t.clone(),
                    None => return Err(PErr::Malformed(self.pos)),
                };
                match t {
                    Tok::Minus => {
                        ops.push(StackOp::Neg(start));
                        self.pos += 1;
                    }
                    Tok::Plus => {
                        ops.push(StackOp::Pos(start));
                        self.pos += 1;
                    }
                    Tok::Num { text, imag } => {
                        self.pos += 1;
                        out.push(Node {
                            e: Expr::Lit { text, imag },
                            span: (start, self.end_char()),
                        });
                        last = Last::Lit;
                        want_operand = false;
                    }
                    Tok::ImagUnit => {
                        self.pos += 1;
                        out.push(Node {
                            e: Expr::ImagUnit,
                            span: (start, self.end_char()),
                        });
                        last = Last::ImagUnit;
                        want_operand = false;
                    }
                    Tok::At | Tok::Pi | Tok::E => {
                        self.pos += 1;
                        let e = match t {
                            Tok::At => Expr::At,
                            Tok::Pi => Expr::Pi,
                            _ => Expr::E,
                        };
                        out.push(Node {
                            e,
                            span: (start, self.end_char()),
                        });
                        last = Last::Closed;
                        want_operand = false;
                    }
                    Tok::LParen | Tok::LFloor | Tok::LCeil => {
                        let (kind, closer) = match t {
                            Tok::LParen => (GroupKind::Paren, Tok::RParen),
                            Tok::LFloor => (GroupKind::Floor, Tok::RFloor),
                            _ => (GroupKind::Ceil, Tok::RCeil),
                        };
                        self.pos += 1;
                        let inner = self.expr()?;
                        if self.peek() != Some(&closer) {
                            return Err(PErr::Malformed(self.pos));
                        }
                        self.pos += 1;
                        out.push(Node {
                            e: Expr::Group(kind, Box::new(inner)),
                            span: (start, self.end_char()),
                        });
                        last = Last::Group;
                        want_operand = false;
                    }
                    Tok::Func(f) => {
                        self.pos += 1;
                        if self.peek() != Some(&Tok::LParen) {
                            return Err(PErr::Malformed(self.pos));
                        }
                        self.pos += 1;
                        let mut args = Vec::new();
                        match f.arity() {
                            Arity::Fixed(n) => {
                                for k in 0..n {
                                    args.push(self.expr()?);
                                    if k + 1 < n {
                                        if self.peek() != Some(&Tok::Comma) {
                                            return Err(PErr::Malformed(self.pos));
                                        }
                                        self.pos += 1;
                                    }
                                }
                                if self.peek() != Some(&Tok::RParen) {
                                    return Err(PErr::Malformed(self.pos));
                                }
                                self.pos += 1;
                            }
                            Arity::Var0 | Arity::Var1 => {
                                if self.peek() == Some(&Tok::RParen) {
                                    if f.arity() == Arity::Var1 {
                                        // an empty list is rejected (at its closing bracket)
                                        return Err(PErr::Malformed(self.pos));
                                    }
                                    self.pos += 1;
                                } else {
                                    loop {
                                        args.push(self.expr()?);
                                        match self.peek() {
                                            Some(Tok::Comma) => self.pos += 1,
                                            Some(Tok::RParen) => {
                                                self.pos += 1;
                                                break;
                                            }
                                            _ => return Err(PErr::Malformed(self.pos)),
                                        }
                                    }
                                }
                            }
                        }
                        out.push(Node {
                            e: Expr::Call(f, args),
                            span: (start, self.end_char()),
                        });
                        last = Last::Call;
                        want_operand = false;
                    }
                    _ => return Err(PErr::Malformed(self.pos)),
                }
            } else {
                let t = match self.peek() {
                    Some(t) => t.clone(),
                    None => break,
                };
                if let Some((b, p)) = bin_of(self.ev, &t) {
                    while let Some(top) = ops.last() {
                        if top.prec() >= p {
                            Self::reduce_top(&mut ops, &mut out);
                        } else {
                            break;
                        }
                    }
                    ops.push(StackOp::Bin(b, p, self.pos));
                    self.pos += 1;
                    want_operand = true;
                    continue;
                }
                match t {
                    Tok::Bang if self.ev.has_factorial() => {
                        while let Some(top) = ops.last() {
                            if top.prec() >= P_FUNC {
                                Self::reduce_top(&mut ops, &mut out);
                            } else {
                                break;
                            }
                        }
                        self.pos += 1;
                        let x = out.pop().unwrap();
                        let span = (x.span.0, self.end_char());
                        out.push(Node {
                            e: Expr::Post(PostOp::Fact, Box::new(x)),
                            span,
                        });
                        last = Last::Fact;
                    }
                    Tok::Deg | Tok::Rad if self.ev.has_deg_rad() => {
                        while let Some(top) = ops.last() {
                            if top.prec() >= P_MUL {
                                Self::reduce_top(&mut ops, &mut out);
                            } else {
                                break;
                            }
                        }
                        self.pos += 1;
                        let x = out.pop().unwrap();
                        let span = (x.span.0, self.end_char());
                        let op = if t == Tok::Deg { PostOp::Deg } else { PostOp::Rad };
                        out.push(Node {
                            e: Expr::Post(op, Box::new(x)),
                            span,
                        });
                        last = Last::Closed;
                    }
                    Tok::Sup(d) => {
                        while let Some(top) = ops.last() {
                            if top.prec() >= P_POW {
                                Self::reduce_top(&mut ops, &mut out);
                            } else {
                                break;
                            }
                        }
                        self.pos += 1;
                        let x = out.pop().unwrap();
                        let span = (x.span.0, self.end_char());
                        out.push(Node {
                            e: Expr::Sup(Box::new(x), d),
                            span,
                        });
                        last = Last::Closed;
                    }
                    Tok::LParen | Tok::LFloor | Tok::LCeil | Tok::Func(_) => match last {
                        Last::Lit | Last::Group | Last::Call | Last::Fact => {
                            // juxtaposition: binds tighter than everything on its left
                            ops.push(StackOp::Bin(BinOp::Impl, P_MUL, self.pos));
                            want_operand = true;
                        }
                        Last::ImagUnit => return Err(PErr::Unspecified("U1: bare i juxtaposed")),
                        Last::Closed => break,
                    },
                    Tok::Num { .. } | Tok::ImagUnit => match last {
                        // a literal (or the unit i) directly followed by a literal: C12 lists it neither among the products
                        // (a literal is followed by a bracket or a function name) nor can a constant continue one — not an
                        // expression, whichever way `i` is read
                        Last::Lit | Last::ImagUnit => return Err(PErr::Malformed(self.pos)),
                        Last::Group | Last::Call | Last::Fact => {
                            if t == Tok::ImagUnit {
                                return Err(PErr::Unspecified("U1: bare i juxtaposed"));
                            }
                            ops.push(StackOp::Bin(BinOp::Impl, P_MUL, self.pos));
                            want_operand = true;
                        }
                        Last::Closed => break,
                    },
                    _ => break,
                }
            }
        }
        while !ops.is_empty() {
            Self::reduce_top(&mut ops, &mut out);
        }
        debug_assert_eq!(out.len(), 1);
        Ok(out.pop().unwrap())
    }
}

pub fn parse_lexed(ev: Ev, lx: &Lexed) -> Parsed {
    let mut p = P { ev, lx, pos: 0 };
    // a lexical error anywhere makes the input malformed at that token, unless an
    // unspecified adjacency is met before it
    match p.expr() {
        Ok(node) => {
            if p.pos == lx.toks.len() && !lx.bad {
                Parsed::WellFormed(node)
            } else {
                Parsed::Malformed(p.pos)
            }
        }
        Err(PErr::Malformed(k)) => Parsed::Malformed(k),
        Err(PErr::Unspecified(r)) => Parsed::Unspecified(r),
    }
}

pub fn parse(ev: Ev, input: &str) -> (Lexed, Parsed) {
    let lx = lex(ev, input);
    let p = parse_lexed(ev, &lx);
    (lx, p)
}

/// fully bracketed rendering, for diagnostics
pub fn show(n: &Node) -> String {
    match &n.e {
        Expr::Lit { text, imag } => format!("{}{}", text, if *imag { "i" } else { "" }),
        Expr::ImagUnit => "i".into(),
        Expr::At => "@".into(),
        Expr::Pi => "pi".into(),
        Expr::E => "e".into(),
        Expr::Neg(x) => format!("(-{})", show(x)),
        Expr::Pos(x) => format!("(+{})", show(x)),
        Expr::Bin(b, l, r) => {
            let o = match b {
                BinOp::Or => "|",
                BinOp::And => "&",
                BinOp::Shl => "<<",
                BinOp::Shr => ">>",
                BinOp::Add => "+",
                BinOp::Sub => "-",
                BinOp::Mul => "*",
                BinOp::Div => "/",
                BinOp::Rem => "%",
                BinOp::Pow => "^",
                BinOp::Impl => "·",
            };
            format!("({}{}{})", show(l), o, show(r))
        }
        Expr::Post(p, x) => format!(
            "({}{})",
            show(x),
            match p {
                PostOp::Fact => "!",
                PostOp::Deg => "°",
                PostOp::Rad => "rad",
            }
        ),
        Expr::Sup(x, d) => format!("({}^^{})", show(x), d),
        Expr::Group(k, x) => match k {
            GroupKind::Paren => format!("[{}]", show(x)),
            GroupKind::Floor => format!("⌊{}⌋", show(x)),
            GroupKind::Ceil => format!("⌈{}⌉", show(x)),
        },
        Expr::Call(f, a) => format!(
            "{:?}({})",
            f,
            a.iter().map(show).collect::<Vec<_>>().join(",")
        ),
    }
}

#[cfg(test)]
mod tests {
    use super::*;
    fn s(ev: Ev, i: &str) -> String {
        match parse(ev, i).1 {
            Parsed::WellFormed(n) => show(&n),
            Parsed::Malformed(k) => format!("MAL@{}", k),
            Parsed::Unspecified(r) => format!("UNSPEC {}", r),
        }
    }
    #[test]
    fn grouping() {
        assert_eq!(s(Ev::F64, "-2^2"), "((-2)^2)");
        assert_eq!(s(Ev::F64, "-3!"), "(-(3!))");
        assert_eq!(s(Ev::F64, "2^3!"), "(2^(3!))");
        assert_eq!(s(Ev::F64, "2^3^2"), "((2^3)^2)");
        assert_eq!(s(Ev::F64, "6/2(3)"), "(6/(2·[3]))");
        assert_eq!(s(Ev::F64, "2^3(4)"), "(2^(3·[4]))");
        assert_eq!(s(Ev::F64, "-2(3)!"), "(-(2·([3]!)))");
        assert_eq!(s(Ev::F64, "2(3)(4)"), "(2·([3]·[4]))");
        assert_eq!(s(Ev::F64, "2*3°"), "((2*3)°)");
        assert_eq!(s(Ev::F64, "2+3°"), "(2+(3°))");
        assert_eq!(s(Ev::F64, "2(3)°"), "((2·[3])°)");
        assert_eq!(s(Ev::F64, "2^3²"), "((2^3)^^2)");
        assert_eq!(s(Ev::F64, "-2²"), "((-2)^^2)");
        assert_eq!(s(Ev::F64, "2*-3^2"), "(2*((-3)^2))");
        assert_eq!(s(Ev::F64, "2!3"), "((2!)·3)");
        assert_eq!(s(Ev::F64, "1)"), "MAL@1");
        assert_eq!(s(Ev::F64, "2pi"), "MAL@1");
        assert_eq!(s(Ev::F64, "@(2)"), "MAL@1");
        assert_eq!(s(Ev::F64, "pow(1)"), "MAL@3");
        assert_eq!(s(Ev::F64, "min()"), "MAL@2");
        assert_eq!(s(Ev::F64, "avg()"), "Avg()");
        assert_eq!(s(Ev::F64, "1.2.3"), "MAL@1");
        assert_eq!(s(Ev::I64, "1|2&3<<4+5"), "(1|(2&(3<<(4+5))))");
        assert_eq!(s(Ev::I64, "pi"), "MAL@0");
        assert_eq!(s(Ev::Cpx, "2!"), "MAL@1");
    }
}
