//! Reference lexer: table driven, longest keyword match.
use crate::vocab::*;

#[derive(Clone, Debug, PartialEq)]
pub enum Tok {
    /// number literal: text (digits and at most one point), imaginary suffix
    Num { text: String, imag: bool },
    /// complex bare `i`
    ImagUnit,
    /// superscript run, as ordinary digits
    Sup(String),
    At,
    Pi,
    E,
    Plus,
    Minus,
    Star,
    Slash,
    Percent,
    Caret,
    Bang,
    Amp,
    Bar,
    Shl,
    Shr,
    Deg,
    Rad,
    LParen,
    RParen,
    LFloor,
    RFloor,
    LCeil,
    RCeil,
    Comma,
    Func(Func),
    /// lexical error: no token of this evaluator starts here
    Bad,
}

#[derive(Clone, Debug)]
pub struct Lexed {
    pub toks: Vec<Tok>,
    /// char span (start, end) of each token in the whitespace-stripped input
    pub spans: Vec<(usize, usize)>,
    /// true if a lexical error was met (the last token is then `Bad` and nothing after it is lexed)
    pub bad: bool,
    /// token is a letter-initial token whose recognition could change if the input were extended
    pub unstable: Vec<bool>,
    pub chars: Vec<char>,
}

impl Lexed {
    pub fn len(&self) -> usize {
        self.toks.len()
    }
    pub fn is_empty(&self) -> bool {
        self.toks.is_empty()
    }
}

fn starts_with(chars: &[char], at: usize, pat: &str) -> bool {
    let mut i = at;
    for pc in pat.chars() {
        if i >= chars.len() || chars[i] != pc {
            return false;
        }
        i += 1;
    }
    true
}

thread_local! {
    static PATTERNS: Vec<Vec<char>> = all_keyword_patterns().iter().map(|s| s.chars().collect()).collect();
}

/// rest-of-input is a proper prefix of some keyword pattern of some evaluator
fn rest_is_proper_prefix_of_keyword(chars: &[char], at: usize) -> bool {
    let rest = &chars[at..];
    PATTERNS.with(|ps| {
        ps.iter()
            .any(|p| p.len() > rest.len() && p[..rest.len()] == *rest)
    })
}

pub fn lex(ev: Ev, input: &str) -> Lexed {
    let chars = strip_ws(input);
    lex_chars(ev, chars)
}

pub fn lex_chars(ev: Ev, chars: Vec<char>) -> Lexed {
    let mut toks = Vec::new();
    let mut spans = Vec::new();
    let mut unstable = Vec::new();
    let mut bad = false;
    let n = chars.len();
    let mut i = 0;
    while i < n {
        let c = chars[i];
        let start = i;
        let mut unst = false;
        let tok: Tok = match c {
            '@' => {
                i += 1;
                Tok::At
            }
            '+' => {
                i += 1;
                Tok::Plus
            }
            '-' => {
                i += 1;
                Tok::Minus
            }
            '*' => {
                i += 1;
                Tok::Star
            }
            '/' => {
                i += 1;
                Tok::Slash
            }
            '^' => {
                i += 1;
                Tok::Caret
            }
            '(' => {
                i += 1;
                Tok::LParen
            }
            ')' => {
                i += 1;
                Tok::RParen
            }
            ',' => {
                i += 1;
                Tok::Comma
            }
            '!' if ev.has_factorial() => {
                i += 1;
                Tok::Bang
            }
            '%' if ev.has_percent() => {
                i += 1;
                Tok::Percent
            }
            '&' if ev.has_bitops() => {
                i += 1;
                Tok::Amp
            }
            '|' if ev.has_bitops() => {
                i += 1;
                Tok::Bar
            }
            '<' if ev.has_bitops() && i + 1 < n && chars[i + 1] == '<' => {
                i += 2;
                Tok::Shl
            }
            '>' if ev.has_bitops() && i + 1 < n && chars[i + 1] == '>' => {
                i += 2;
                Tok::Shr
            }
            'π' if ev.has_consts() => {
                i += 1;
                Tok::Pi
            }
            '°' if ev.has_deg_rad() => {
                i += 1;
                Tok::Deg
            }
            '⌊' if ev.has_floor_brackets() => {
                i += 1;
                Tok::LFloor
            }
            '⌋' if ev.has_floor_brackets() => {
                i += 1;
                Tok::RFloor
            }
            '⌈' if ev.has_floor_brackets() => {
                i += 1;
                Tok::LCeil
            }
            '⌉' if ev.has_floor_brackets() => {
                i += 1;
                Tok::RCeil
            }
            '0'..='9' => {
                let mut text = String::new();
                while i < n && chars[i].is_ascii_digit() {
                    text.push(chars[i]);
                    i += 1;
                }
                if ev.has_point() && i < n && chars[i] == '.' {
                    text.push('.');
                    i += 1;
                    while i < n && chars[i].is_ascii_digit() {
                        text.push(chars[i]);
                        i += 1;
                    }
                }
                let mut imag = false;
                if ev == Ev::Cpx && i < n && chars[i] == 'i' {
                    imag = true;
                    i += 1;
                }
                Tok::Num { text, imag }
            }
            '.' if ev.has_point() && i + 1 < n && chars[i + 1].is_ascii_digit() => {
                let mut text = String::from(".");
                i += 1;
                while i < n && chars[i].is_ascii_digit() {
                    text.push(chars[i]);
                    i += 1;
                }
                let mut imag = false;
                if ev == Ev::Cpx && i < n && chars[i] == 'i' {
                    imag = true;
                    i += 1;
                }
                Tok::Num { text, imag }
            }
            _ if sup_digit(c).is_some() => {
                let mut text = String::new();
                while i < n {
                    match sup_digit(chars[i]) {
                        Some(d) => {
                            text.push(d);
                            i += 1;
                        }
                        None => break,
                    }
                }
                Tok::Sup(text)
            }
            'a'..='z' | '_' => {
                unst = rest_is_proper_prefix_of_keyword(&chars, i);
                // function names first (a name counts only when directly followed by '(')
                let mut found: Option<(usize, Func)> = None;
                for (name, f) in func_names(ev) {
                    if starts_with(&chars, i, name) {
                        let l = name.chars().count();
                        if i + l < n && chars[i + l] == '(' {
                            match found {
                                Some((fl, _)) if fl >= l => {}
                                _ => found = Some((l, *f)),
                            }
                        }
                    }
                }
                if let Some((l, f)) = found {
                    i += l;
                    Tok::Func(f)
                } else if ev.has_consts() && starts_with(&chars, i, "pi") {
                    i += 2;
                    Tok::Pi
                } else if ev.has_deg_rad() && starts_with(&chars, i, "rad") {
                    i += 3;
                    Tok::Rad
                } else if ev.has_consts() && c == 'e' {
                    i += 1;
                    Tok::E
                } else if ev == Ev::Cpx && c == 'i' {
                    i += 1;
                    Tok::ImagUnit
                } else {
                    i += 1;
                    Tok::Bad
                }
            }
            _ => {
                i += 1;
                Tok::Bad
            }
        };
        let is_bad = tok == Tok::Bad;
        if is_bad {
            // a lone '.', '<', '>' or a letter run might still become a token when extended
            unst = true;
        }
        toks.push(tok);
        spans.push((start, i));
        unstable.push(unst);
        if is_bad {
            bad = true;
            break;
        }
    }
    Lexed {
        toks,
        spans,
        bad,
        unstable,
        chars,
    }
}

#[cfg(test)]
mod tests {
    use super::*;
    #[test]
    fn basic() {
        let l = lex(Ev::F64, "2 sin(pi) e exp(1) rad");
        assert_eq!(
            l.toks,
            vec![
                Tok::Num { text: "2".into(), imag: false },
                Tok::Func(Func::Sin),
                Tok::LParen,
                Tok::Pi,
                Tok::RParen,
                Tok::E,
                Tok::Func(Func::Exp),
                Tok::LParen,
                Tok::Num { text: "1".into(), imag: false },
                Tok::RParen,
                Tok::Rad
            ]
        );
        let l = lex(Ev::Cpx, "2i+i+.5i");
        assert_eq!(l.toks.len(), 5);
        let l = lex(Ev::I64, "1<<2>>3.");
        assert!(l.bad);
        let l = lex(Ev::F64, "2ex");
        assert!(l.bad && l.unstable[1]);
    }
}
