//! Minimal arbitrary-precision integers and unnormalised rationals: the exact oracle of C07 and C19.

use std::cmp::Ordering;

/// non-negative magnitude, little-endian base 2^32, no trailing zero limbs
#[derive(Clone, Debug, PartialEq, Eq)]
pub struct Mag(pub Vec<u32>);

impl Mag {
    pub fn zero() -> Mag {
        Mag(vec![])
    }
    pub fn from_u128(mut v: u128) -> Mag {
        let mut l = vec![];
        while v > 0 {
            l.push(v as u32);
            v >>= 32;
        }
        Mag(l)
    }
    pub fn is_zero(&self) -> bool {
        self.0.is_empty()
    }
    fn trim(mut self) -> Mag {
        while let Some(0) = self.0.last() {
            self.0.pop();
        }
        self
    }
    pub fn bits(&self) -> usize {
        match self.0.last() {
            None => 0,
            Some(t) => (self.0.len() - 1) * 32 + (32 - t.leading_zeros() as usize),
        }
    }
    pub fn cmp(&self, o: &Mag) -> Ordering {
        if self.0.len() != o.0.len() {
            return self.0.len().cmp(&o.0.len());
        }
        for i in (0..self.0.len()).rev() {
            if self.0[i] != o.0[i] {
                return self.0[i].cmp(&o.0[i]);
            }
        }
        Ordering::Equal
    }
    pub fn add(&self, o: &Mag) -> Mag {
        let n = self.0.len().max(o.0.len());
        let mut r = Vec::with_capacity(n + 1);
        let mut c = 0u64;
        for i in 0..n {
            let s = *self.0.get(i).unwrap_or(&0) as u64 + *o.0.get(i).unwrap_or(&0) as u64 + c;
            r.push(s as u32);
            c = s >> 32;
        }
        if c > 0 {
            r.push(c as u32);
        }
        Mag(r)
    }
    /// self - o, requires self >= o
    pub fn sub(&self, o: &Mag) -> Mag {
        debug_assert!(self.cmp(o) != Ordering::Less);
        let mut r = Vec::with_capacity(self.0.len());
        let mut b = 0i64;
        for i in 0..self.0.len() {
            let mut d = self.0[i] as i64 - *o.0.get(i).unwrap_or(&0) as i64 - b;
            if d < 0 {
                d += 1 << 32;
                b = 1;
            } else {
                b = 0;
            }
            r.push(d as u32);
        }
        Mag(r).trim()
    }
    pub fn mul(&self, o: &Mag) -> Mag {
        if self.is_zero() || o.is_zero() {
            return Mag::zero();
        }
        let mut r = vec![0u32; self.0.len() + o.0.len()];
        for i in 0..self.0.len() {
            let mut c = 0u64;
            for j in 0..o.0.len() {
                let t = self.0[i] as u64 * o.0[j] as u64 + r[i + j] as u64 + c;
                r[i + j] = t as u32;
                c = t >> 32;
            }
            let mut k = i + o.0.len();
            while c > 0 {
                let t = r[k] as u64 + c;
                r[k] = t as u32;
                c = t >> 32;
                k += 1;
            }
        }
        Mag(r).trim()
    }
    pub fn mul_small(&self, m: u32) -> Mag {
        let mut r = Vec::with_capacity(self.0.len() + 1);
        let mut c = 0u64;
        for l in &self.0 {
            let t = *l as u64 * m as u64 + c;
            r.push(t as u32);
            c = t >> 32;
        }
        if c > 0 {
            r.push(c as u32);
        }
        Mag(r).trim()
    }
    /// (self / d, self % d) for a small divisor
    pub fn divrem_small(&self, d: u32) -> (Mag, u32) {
        let mut q = vec![0u32; self.0.len()];
        let mut rem = 0u64;
        for i in (0..self.0.len()).rev() {
            let cur = (rem << 32) | self.0[i] as u64;
            q[i] = (cur / d as u64) as u32;
            rem = cur % d as u64;
        }
        (Mag(q).trim(), rem as u32)
    }
    fn bit(&self, i: usize) -> bool {
        let (w, b) = (i / 32, i % 32);
        w < self.0.len() && (self.0[w] >> b) & 1 == 1
    }
    fn shl1_or(&mut self, bit: bool) {
        let mut c = bit as u32;
        for l in self.0.iter_mut() {
            let n = *l >> 31;
            *l = (*l << 1) | c;
            c = n;
        }
        if c > 0 {
            self.0.push(c);
        }
    }
    /// (self / d, self % d), d != 0; shift-subtract long division
    pub fn divrem(&self, d: &Mag) -> (Mag, Mag) {
        assert!(!d.is_zero());
        if self.cmp(d) == Ordering::Less {
            return (Mag::zero(), self.clone());
        }
        if d.0.len() == 1 {
            let (q, r) = self.divrem_small(d.0[0]);
            return (q, Mag::from_u128(r as u128));
        }
        let n = self.bits();
        let mut q = vec![0u32; self.0.len()];
        let mut r = Mag::zero();
        for i in (0..n).rev() {
            r.shl1_or(self.bit(i));
            if r.cmp(d) != Ordering::Less {
                r = r.sub(d);
                q[i / 32] |= 1 << (i % 32);
            }
        }
        (Mag(q).trim(), r)
    }
    pub fn pow10(n: u32) -> Mag {
        let mut r = Mag::from_u128(1);
        for _ in 0..n {
            r = r.mul_small(10);
        }
        r
    }
    pub fn from_decimal_digits(s: &str) -> Mag {
        let mut r = Mag::zero();
        for c in s.chars() {
            r = r.mul_small(10).add(&Mag::from_u128((c as u8 - b'0') as u128));
        }
        r
    }
    pub fn to_u128(&self) -> Option<u128> {
        if self.0.len() > 4 {
            return None;
        }
        let mut v = 0u128;
        for (i, l) in self.0.iter().enumerate() {
            v |= (*l as u128) << (32 * i);
        }
        Some(v)
    }
    pub fn to_f64(&self) -> f64 {
        let mut v = 0.0f64;
        for l in self.0.iter().rev() {
            v = v * 4294967296.0 + *l as f64;
        }
        v
    }
}

/// signed rational p/q with q > 0, not normalised
#[derive(Clone, Debug)]
pub struct Rat {
    pub neg: bool,
    pub p: Mag,
    pub q: Mag,
}

impl Rat {
    pub fn new(neg: bool, p: Mag, q: Mag) -> Rat {
        let neg = neg && !p.is_zero();
        Rat { neg, p, q }
    }
    pub fn int(v: i128) -> Rat {
        Rat::new(v < 0, Mag::from_u128(v.unsigned_abs()), Mag::from_u128(1))
    }
    pub fn is_zero(&self) -> bool {
        self.p.is_zero()
    }
    pub fn neg(&self) -> Rat {
        Rat::new(!self.neg, self.p.clone(), self.q.clone())
    }
    pub fn add(&self, o: &Rat) -> Rat {
        let a = self.p.mul(&o.q);
        let b = o.p.mul(&self.q);
        let q = self.q.mul(&o.q);
        if self.neg == o.neg {
            Rat::new(self.neg, a.add(&b), q)
        } else {
            match a.cmp(&b) {
                Ordering::Less => Rat::new(o.neg, b.sub(&a), q),
                _ => Rat::new(self.neg, a.sub(&b), q),
            }
        }
    }
    pub fn sub(&self, o: &Rat) -> Rat {
        self.add(&o.neg())
    }
    pub fn mul(&self, o: &Rat) -> Rat {
        Rat::new(self.neg != o.neg, self.p.mul(&o.p), self.q.mul(&o.q))
    }
    /// o != 0
    pub fn div(&self, o: &Rat) -> Rat {
        Rat::new(self.neg != o.neg, self.p.mul(&o.q), self.q.mul(&o.p))
    }
    /// truncated remainder (sign of the dividend), o != 0
    pub fn rem(&self, o: &Rat) -> Rat {
        // a = p1/q1, b = p2/q2; a/b = p1 q2 / (q1 p2); t = trunc(|a/b|); r = |a| - |b| t
        let num = self.p.mul(&o.q);
        let den = self.q.mul(&o.p);
        let (t, _) = num.divrem(&den);
        let bt = Rat::new(false, o.p.mul(&t), o.q.clone());
        let r = Rat::new(false, self.p.clone(), self.q.clone()).sub(&bt);
        Rat::new(self.neg, r.p, r.q)
    }
    pub fn cmp_abs(&self, o: &Rat) -> Ordering {
        self.p.mul(&o.q).cmp(&o.p.mul(&self.q))
    }
    pub fn to_f64(&self) -> f64 {
        // good enough for tolerances and diagnostics: scale both parts into the double range
        let (pb, qb) = (self.p.bits() as i32, self.q.bits() as i32);
        let shift_p = (pb - 900).max(0);
        let shift_q = (qb - 900).max(0);
        let p = shr(&self.p, shift_p as usize).to_f64();
        let q = shr(&self.q, shift_q as usize).to_f64();
        let v = p / q * 2f64.powi(shift_p - shift_q);
        if self.neg {
            -v
        } else {
            v
        }
    }
    /// If the value is m / 10^s with s <= 28, returns (m, s) with the smallest such s.
    pub fn as_decimal(&self) -> Option<(Mag, u32)> {
        let scaled = self.p.mul(&Mag::pow10(28));
        let (n, r) = scaled.divrem(&self.q);
        if !r.is_zero() {
            return None;
        }
        let mut m = n;
        let mut s = 28u32;
        while s > 0 {
            let (d, r) = m.divrem_small(10);
            if r != 0 {
                break;
            }
            m = d;
            s -= 1;
        }
        Some((m, s))
    }
}

fn shr(m: &Mag, n: usize) -> Mag {
    if n == 0 {
        return m.clone();
    }
    let words = n / 32;
    let bits = n % 32;
    if words >= m.0.len() {
        return Mag::zero();
    }
    let mut r: Vec<u32> = m.0[words..].to_vec();
    if bits > 0 {
        for i in 0..r.len() {
            let hi = if i + 1 < r.len() { r[i + 1] } else { 0 };
            r[i] = (r[i] >> bits) | (hi << (32 - bits));
        }
    }
    Mag(r).trim()
}

#[cfg(test)]
mod tests {
    use super::*;
    #[test]
    fn arith() {
        let a = Mag::from_decimal_digits("123456789012345678901234567890123456789");
        let b = Mag::from_decimal_digits("987654321098765432109876543210");
        let (q, r) = a.divrem(&b);
        assert_eq!(q, Mag::from_decimal_digits("124999998"));
        assert_eq!(q.mul(&b).add(&r), a);
        let x = Rat::new(false, Mag::from_u128(1), Mag::from_u128(10));
        let y = Rat::new(false, Mag::from_u128(2), Mag::from_u128(10));
        let z = x.add(&y);
        assert_eq!(z.as_decimal(), Some((Mag::from_u128(3), 1)));
        let t = Rat::int(2).div(&Rat::int(3));
        assert!(t.as_decimal().is_none());
        assert!((t.to_f64() - 0.6666666666666666).abs() < 1e-15);
        let r = Rat::int(-7).rem(&Rat::int(3));
        assert!(r.neg && r.as_decimal() == Some((Mag::from_u128(1), 0)));
    }
}
