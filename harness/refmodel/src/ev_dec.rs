//! Reference evaluator for eval_decimal used by the *grouping* checks (C03, C04, C12, C14, C20):
//! the tree is evaluated with rust_decimal's checked operations and compared numerically.
//! C07 judges that arithmetic independently with exact rationals (big.rs / ev_dec_exact.rs).
use crate::parse::*;
use crate::rv::*;
use crate::vocab::Func;
use rust_decimal::prelude::*;
use rust_decimal::{Decimal, RoundingStrategy};

type R = RV<Decimal>;

/// exact remainder (sign of the dividend) through rationals; rust_decimal's own `%` is not reliable
pub fn rem_exact(a: Decimal, b: Decimal) -> Option<Decimal> {
    use crate::ev_dec_exact::rat_of_decimal;
    if b.is_zero() {
        return None;
    }
    let r = rat_of_decimal(a).rem(&rat_of_decimal(b));
    let (m, s) = r.as_decimal()?;
    let mut d = Decimal::try_from_i128_with_scale(m.to_u128()? as i128, s).ok()?;
    d.set_sign_negative(r.neg);
    Some(d)
}

pub fn lit(text: &str) -> Option<Decimal> {
    // DIGITS, DIGITS., DIGITS.DIGITS, .DIGITS with at most 28 fractional digits and a 96-bit coefficient
    let mut t = text.to_string();
    if t.starts_with('.') {
        t.insert(0, '0');
    }
    if t.ends_with('.') {
        t.pop();
    }
    if let Ok(d) = Decimal::from_str_exact(&t) {
        return Some(d);
    }
    // more than 28 digits after the point, yet at most 28 significant ones (leading zeros are not significant) and a
    // value that a Decimal holds once the redundant trailing zeros are dropped: C19 fixes the value of these too
    // (0.00000000000000000000000000010 is 1e-28)
    let (int_part, frac_part) = match t.split_once('.') {
        Some((a, b)) => (a, b),
        None => (t.as_str(), ""),
    };
    if !int_part.bytes().chain(frac_part.bytes()).all(|b| b.is_ascii_digit()) {
        return None;
    }
    let all: String = format!("{}{}", int_part, frac_part);
    let significant = all.trim_start_matches('0').len();
    if significant > 28 {
        return None;
    }
    let frac = frac_part.trim_end_matches('0');
    if frac.len() > 28 {
        return None;
    }
    let digits = format!("{}{}", int_part, frac);
    let m: i128 = digits.trim_start_matches('0').parse().unwrap_or(0);
    Decimal::try_from_i128_with_scale(m, frac.len() as u32).ok()
}

/// the double nearest to the decimal value (through its text: rust_decimal's own to_f64 can be an ulp off,
/// which matters next to a pole)
fn f(d: Decimal) -> f64 {
    d.to_string().parse::<f64>().unwrap_or(f64::NAN)
}

/// ln of a positive decimal in double precision, without losing an argument that differs from 1 by less
/// than a double can show
fn ln_near(x: Decimal) -> f64 {
    let d = x - Decimal::ONE;
    if d.abs() < Decimal::new(1, 3) {
        f(d).ln_1p()
    } else {
        f(x).ln()
    }
}

fn too_close_to_one(x: Decimal) -> bool {
    (x - Decimal::ONE).abs() <= Decimal::new(1, 17)
}

/// a result formed from an approximate operand is rounded at 28 fractional digits on top of the propagated error: one
/// unit in the last place either way (0.5 * 1e-28 rounds to 0 or to 1e-28 depending on the 29th digit of the 0.5)
fn resolution(q: Q) -> Q {
    match q {
        Q::Tol(t) => Q::Tol(t + 1e-28),
        o => o,
    }
}

fn un(x: R, g: impl Fn(Decimal, Q) -> R) -> R {
    match x {
        RV::Val(v, q) => g(v, q),
        o => o,
    }
}

fn keep(q: Q, v: Decimal) -> R {
    match q {
        Q::Exact => RV::Val(v, Q::Exact),
        _ => RV::Val(v, Q::Skip),
    }
}

/// expectation obtained from the double-precision function: defined only where 28 digits can hold 1e-9 relative
fn from_f64(q: Q, v: f64) -> R {
    if !v.is_finite() {
        return RV::Unspec("U3: no finite decimal result");
    }
    if v.abs() < 1e-18 || v.abs() > 7e28 {
        return RV::Unspec("U3: decimal result outside the range where 1e-9 relative is representable");
    }
    match Decimal::from_f64(v) {
        Some(d) => match q {
            Q::Exact => RV::Val(d, rel(v, 1e-9)),
            _ => RV::Val(d, Q::Skip),
        },
        None => RV::Unspec("U3: not representable"),
    }
}

pub fn round_half_even(d: Decimal) -> Decimal {
    d.round_dp_with_strategy(0, RoundingStrategy::MidpointNearestEven)
}

pub fn eval(n: &Node, at: Decimal) -> R {
    match &n.e {
        Expr::Lit { text, .. } => match lit(text) {
            Some(v) => RV::exact(v),
            None => RV::Unspec("U2: decimal literal beyond 28 digits"),
        },
        Expr::ImagUnit => RV::Unspec("not decimal"),
        Expr::At => RV::exact(at),
        Expr::Pi => RV::Val(Decimal::PI, Q::Tol(1e-9)),
        Expr::E => RV::Val(Decimal::E, Q::Tol(1e-9)),
        // (a Lambert-quality value is not produced by the reference: its negation is defined but not compared)
        Expr::Neg(x) => un(eval(x, at), |v, q| RV::Val(-v, if matches!(q, Q::Lambert(_)) { Q::Skip } else { q })),
        Expr::Pos(x) => eval(x, at),
        Expr::Group(k, x) => un(eval(x, at), |v, q| match k {
            GroupKind::Paren => RV::Val(v, q),
            GroupKind::Floor => keep(q, v.floor()),
            GroupKind::Ceil => keep(q, v.ceil()),
        }),
        Expr::Sup(x, d) => un(eval(x, at), |v, q| match lit(d) {
            _ if q != Q::Exact => RV::Unspec("U3: power of an approximate operand"),
            Some(e) => pow(v, e, q),
            None => RV::Unspec("U2: superscript beyond 28 digits"),
        }),
        Expr::Post(PostOp::Fact, x) => un(eval(x, at), factorial),
        Expr::Post(_, _) => RV::Unspec("not decimal"),
        Expr::Bin(b, l, r) => {
            let (a, aq) = match eval(l, at) {
                RV::Val(v, q) => (v, q),
                o => return o,
            };
            let (c, cq) = match eval(r, at) {
                RV::Val(v, q) => (v, q),
                o => return o,
            };
            if aq != Q::Exact || cq != Q::Exact {
                // operands known only approximately: the step is specified only when it is clearly
                // inside the range and away from a zero divisor
                let (ta, tc) = match (tol_of(aq), tol_of(cq)) {
                    (Some(x), Some(y)) => (x, y),
                    _ => return RV::Unspec("U3: step on an operand whose value is not specified"),
                };
                let safe = |v: Decimal| f(v).abs() < 1e27;
                if !(safe(a) && safe(c)) || ta > 1e-6 * f(a).abs().max(1e-20) || tc > 1e-6 * f(c).abs().max(1e-20) {
                    return RV::Unspec("U3: step on a loosely specified operand");
                }
                match b {
                    BinOp::Div | BinOp::Rem | BinOp::Pow => {
                        if *b != BinOp::Div || c.is_zero() {
                            return RV::Unspec("U3: % or ^ on an approximate operand");
                        }
                        if f(a).abs() / f(c).abs() >= 1e27 {
                            return RV::Unspec("U3: quotient of approximate operands near the range limit");
                        }
                    }
                    BinOp::Mul | BinOp::Impl => {
                        if f(a).abs() * f(c).abs() >= 1e27 {
                            return RV::Unspec("U3: product of approximate operands near the range limit");
                        }
                    }
                    _ => {}
                }
            }
            match b {
                BinOp::Add => match a.checked_add(c) {
                    Some(v) => RV::Val(v, resolution(q_add(aq, cq, f(v)))),
                    None => RV::MustErr("sum outside the Decimal range"),
                },
                BinOp::Sub => match a.checked_sub(c) {
                    Some(v) => RV::Val(v, resolution(q_add(aq, cq, f(v)))),
                    None => RV::MustErr("difference outside the Decimal range"),
                },
                BinOp::Mul | BinOp::Impl => match a.checked_mul(c) {
                    Some(v) => RV::Val(v, resolution(q_mul(aq, f(a), cq, f(c), f(v)))),
                    None => RV::MustErr("product outside the Decimal range"),
                },
                BinOp::Div => {
                    if c.is_zero() {
                        return RV::MustErr("division by zero");
                    }
                    match a.checked_div(c) {
                        Some(v) => {
                            let q = match q_div(aq, f(a), cq, f(c), f(v)) {
                                Q::Exact => Q::Tol(1e-27 * f(v).abs().max(1.0)),
                                Q::Tol(t) => Q::Tol(t + 1e-27 * f(v).abs().max(1.0)),
                                o => o,
                            };
                            RV::Val(v, q)
                        }
                        None => RV::MustErr("quotient outside the Decimal range"),
                    }
                }
                BinOp::Rem => {
                    if c.is_zero() {
                        return RV::MustErr("remainder by zero");
                    }
                    match rem_exact(a, c) {
                        Some(v) => RV::Val(
                            v,
                            if aq == Q::Exact && cq == Q::Exact {
                                Q::Exact
                            } else {
                                Q::Skip
                            },
                        ),
                        None => RV::Unspec("U3: remainder not computable"),
                    }
                }
                BinOp::Pow => {
                    let q = if aq == Q::Exact && cq == Q::Exact {
                        Q::Exact
                    } else {
                        Q::Skip
                    };
                    pow(a, c, q)
                }
                _ => RV::Unspec("not decimal"),
            }
        }
        Expr::Call(fun, args) => call(*fun, args, at),
    }
}

fn pow(a: Decimal, b: Decimal, q: Q) -> R {
    // a^b: exact for small non-negative integer exponents when representable, 1e-9 relative otherwise
    if b.fract().is_zero() && b >= Decimal::ZERO && b <= Decimal::from(64) {
        let mut r = Decimal::ONE;
        let n = b.abs().trunc().to_u32().unwrap_or(0);
        // products of integers are exact (or overflow); anything else may have been rounded at 28 digits
        let exact = a.fract().is_zero();
        for _ in 0..n {
            match r.checked_mul(a) {
                Some(v) => r = v,
                None => return RV::MustErr("power outside the Decimal range"),
            }
        }
        if r.is_zero() && !a.is_zero() {
            return RV::Unspec("U3: power underflows");
        }
        if !exact && r.abs() < Decimal::new(1, 18) {
            // 28 fractional digits cannot hold 1e-9 relative below 1e-18 (as for every other function result)
            return RV::Unspec("U3: decimal result outside the range where 1e-9 relative is representable");
        }
        return match q {
            Q::Exact => RV::Val(r, if exact { Q::Tol(0.0) } else { rel(f(r), 1e-9) }),
            _ => RV::Val(r, Q::Skip),
        };
    }
    let (x, y) = (f(a), f(b));
    if a.is_zero() {
        if b > Decimal::ZERO {
            return keep(q, Decimal::ZERO);
        }
        return RV::Unspec("U3: 0 to a non-positive power");
    }
    if a < Decimal::ZERO {
        if !b.fract().is_zero() {
            return RV::Unspec("U3: negative base with a fractional exponent");
        }
        if y.abs() >= 9007199254740992.0 {
            // the parity of the exponent is lost in the double
            return RV::Unspec("U3: negative base with an exponent beyond 2^53");
        }
        let t = y * ln_near(a.abs());
        if t.abs() > 1e5 {
            return RV::Unspec("U3: power too ill-conditioned for the double-precision oracle");
        }
        let mag = if (a.abs() - Decimal::ONE).abs() < Decimal::new(1, 3) { t.exp() } else { x.abs().powf(y) };
        let odd = !(b % Decimal::TWO).is_zero();
        return from_f64(q, if odd { -mag } else { mag });
    }
    let t = y * ln_near(a);
    if t.abs() > 1e5 {
        // the double-precision oracle cannot deliver 1e-9 relative here
        return RV::Unspec("U3: power too ill-conditioned for the double-precision oracle");
    }
    if y.abs() > 1e18 {
        // the exponent multiplies the 1e-28 resolution of the base (or of its logarithm)
        return RV::Unspec("U3: an exponent beyond 1e18 is ill-conditioned at 28 digits");
    }
    // a base that differs from 1 by less than a double can show: through the logarithm
    from_f64(q, if (a - Decimal::ONE).abs() < Decimal::new(1, 3) { t.exp() } else { x.powf(y) })
}

pub fn factorial(v: Decimal, q: Q) -> R {
    if q != Q::Exact {
        return RV::Unspec("U3: factorial of an approximate operand");
    }
    if v.fract().is_zero() {
        if v < Decimal::ZERO {
            return RV::Unspec("U3: factorial of a negative integer");
        }
        if v > Decimal::from(27) {
            return RV::MustErr("factorial outside the Decimal range");
        }
        let n = v.to_i64().unwrap();
        let mut r = Decimal::ONE;
        for i in 2..=n {
            r *= Decimal::from(i);
        }
        keep(q, r)
    } else {
        let x = f(v);
        if x.abs() > 150.0 {
            return RV::Unspec("U3: non-integer factorial beyond |x| <= 150");
        }
        // next to a pole (a negative integer) the double-precision oracle is only as good as the conversion of
        // the argument: when the decimal is not exactly a double there, the relative error of the conversion
        // (1e-16 |x|) divided by the distance to the pole must stay below the tolerance
        if v < Decimal::ZERO {
            let dist = f((v - v.round()).abs());
            let exact = Decimal::from_f64_retain(x).map(|b| b == v).unwrap_or(false);
            if !exact && dist < 1e-6 * x.abs().max(1.0) {
                // the distance d to the pole -m is exact in decimal arithmetic and small, so it converts well; then
                // x! = Gamma(x + 1) = pi / (sin(pi (x + 1)) Gamma(-x)) with sin(pi (x + 1)) = (-1)^(m-1) sin(pi d),
                // and Gamma(-x) is well-conditioned (its argument is next to the positive integer m)
                if dist < 1e-17 * x.abs().max(1.0) {
                    // pi * x is formed at 28 digits: its rounding (1e-28 |x|) against the distance to the pole
                    return RV::Unspec("U3: argument within the arithmetic's resolution of a pole of x!");
                }
                let pole = v.round();
                let d = f(v - pole);
                let m = (-pole).to_i64().unwrap_or(0);
                if m < 1 || d == 0.0 {
                    return RV::Unspec("U3: argument next to a pole of x!");
                }
                let sign = if (m - 1) % 2 == 0 { 1.0 } else { -1.0 };
                let s = sign * (std::f64::consts::PI * d).sin();
                return from_f64(q, std::f64::consts::PI / (s * crate::ev_f64::gamma(-x)));
            }
        }
        from_f64(q, crate::ev_f64::gamma(x + 1.0))
    }
}

fn call(fun: Func, args: &[Node], at: Decimal) -> R {
    let mut vs: Vec<Decimal> = Vec::new();
    let mut q = Q::Exact;
    for a in args {
        match eval(a, at) {
            RV::Val(v, vq) => {
                if vq != Q::Exact {
                    q = Q::Skip;
                }
                vs.push(v);
            }
            o => return o,
        }
    }
    use Func::*;
    if q != Q::Exact && !matches!(fun, Abs | Floor | Ceil | Trunc | Round | Sign | Min | Max) {
        return RV::Unspec("U3: function of an operand that is only approximately specified");
    }
    match fun {
        Abs => keep(q, vs[0].abs()),
        Floor => keep(q, vs[0].floor()),
        Ceil => keep(q, vs[0].ceil()),
        Trunc => keep(q, vs[0].trunc()),
        Round => keep(q, round_half_even(vs[0])),
        Sign => keep(
            q,
            if vs[0].is_zero() {
                Decimal::ZERO
            } else if vs[0] > Decimal::ZERO {
                Decimal::ONE
            } else {
                -Decimal::ONE
            },
        ),
        Mod => {
            if vs[1].is_zero() {
                return RV::MustErr("remainder by zero");
            }
            match rem_exact(vs[0], vs[1]) {
                Some(v) => keep(q, v),
                None => RV::Unspec("U3: remainder not computable"),
            }
        }
        Pow => pow(vs[0], vs[1], q),
        Sqrt => {
            if vs[0] < Decimal::ZERO {
                RV::Unspec("U3: sqrt of a negative number")
            } else if vs[0].is_zero() {
                keep(q, Decimal::ZERO)
            } else {
                from_f64(q, f(vs[0]).sqrt())
            }
        }
        Ln | Lb => {
            if vs[0] <= Decimal::ZERO {
                RV::Unspec("U3: logarithm of a non-positive number")
            } else if vs[0] == Decimal::ONE {
                keep(q, Decimal::ZERO)
            } else if too_close_to_one(vs[0]) {
                // |ln x| < 1e-17 carries the library's absolute error of about 1e-27: no 1e-9 relative there
                RV::Unspec("U3: logarithm of an argument within 1e-17 of 1 at 28 digits")
            } else {
                let l = ln_near(vs[0]);
                from_f64(q, if fun == Ln { l } else { l / std::f64::consts::LN_2 })
            }
        }
        Log => {
            if vs[0] <= Decimal::ZERO || vs[1] <= Decimal::ZERO || vs[1] == Decimal::ONE {
                RV::Unspec("U3: log outside its domain")
            } else if too_close_to_one(vs[1]) || (vs[0] != Decimal::ONE && too_close_to_one(vs[0])) {
                // ln(1 + d) carries an absolute error of about ten units of the arithmetic's resolution 1e-28: below |d| = 1e-17
                // the quotient of logarithms cannot be expected within 1e-9 relative
                RV::Unspec("U3: logarithm of an argument within 1e-17 of 1 is ill-conditioned at 28 digits")
            } else if vs[0] == Decimal::ONE {
                keep(q, Decimal::ZERO)
            } else {
                from_f64(q, ln_near(vs[0]) / ln_near(vs[1]))
            }
        }
        Exp => from_f64(q, f(vs[0]).exp()),
        Exp2 => from_f64(q, f(vs[0]).exp2()),
        Root => {
            // root(n, x) = x^(1/n)
            if vs[1] <= Decimal::ZERO || vs[0].is_zero() {
                RV::Unspec("U3: root outside the positive reals")
            } else {
                // x^(1/n) with the exponent formed at 28 digits, under the conditioning rules of pow
                match Decimal::ONE.checked_div(vs[0]) {
                    None => RV::Unspec("U3: 1/n outside the Decimal range"),
                    Some(e) => match pow(vs[1], e, q) {
                        RV::Val(v, Q::Tol(t)) if t == 0.0 => RV::Val(v, rel(f(v), 1e-9)),
                        RV::MustErr(_) => RV::Unspec("U3: root outside the Decimal range"),
                        other => other,
                    },
                }
            }
        }
        LambertW => {
            let x = f(vs[0]);
            if x <= -(-1.0f64).exp() + 1e-12 {
                RV::Unspec("U3: W at or below the branch point")
            } else {
                match q {
                    Q::Exact => RV::Val(Decimal::ZERO, Q::Lambert(x)),
                    _ => RV::Val(Decimal::ZERO, Q::Skip),
                }
            }
        }
        ILog => RV::Unspec("U3: ilog is not specified"),
        Min => keep(q, *vs.iter().min().unwrap()),
        Max => keep(q, *vs.iter().max().unwrap()),
        Avg => {
            if vs.is_empty() {
                return RV::Val(Decimal::ZERO, Q::Exact);
            }
            let n = Decimal::from(vs.len() as i64);
            let mut s = Some(Decimal::ZERO);
            for v in &vs {
                s = s.and_then(|t| t.checked_add(*v));
            }
            let v = match s {
                Some(t) => t / n,
                None => {
                    // only the sum overflows: the mean of values inside the range is inside the range, so it always has a
                    // value — through exact rationals, rounded to what a Decimal holds
                    match mean_exact(&vs) {
                        Some(m) => m,
                        None => return RV::Unspec("U3: mean not computable"),
                    }
                }
            };
            match q {
                Q::Exact => RV::Val(v, Q::Tol(1e-27 * f(v).abs().max(1.0))),
                _ => RV::Val(v, Q::Skip),
            }
        }
        Med => {
            let mut s = vs.clone();
            s.sort();
            let l = s.len();
            if l % 2 == 1 {
                keep(q, s[l / 2])
            } else {
                match s[l / 2].checked_add(s[l / 2 - 1]) {
                    Some(t) => {
                        let v = t / Decimal::TWO;
                        match q {
                            Q::Exact => RV::Val(v, Q::Tol(1e-27 * f(v).abs().max(1.0))),
                            _ => RV::Val(v, Q::Skip),
                        }
                    }
                    None => {
                        // only the sum overflows
                        match mean_exact(&[s[l / 2], s[l / 2 - 1]]) {
                            Some(v) => match q {
                                Q::Exact => RV::Val(v, Q::Tol(1e-27 * f(v).abs().max(1.0))),
                                _ => RV::Val(v, Q::Skip),
                            },
                            None => RV::Unspec("U3: mean not computable"),
                        }
                    }
                }
            }
        }
        _ => RV::Unspec("not decimal"),
    }
}

/// the mean of decimals as an exact rational, rounded (toward zero in the last place kept) to the most digits a Decimal holds
fn mean_exact(vs: &[Decimal]) -> Option<Decimal> {
    use crate::big::{Mag, Rat};
    use crate::ev_dec_exact::rat_of_decimal;
    let mut sum = Rat::int(0);
    for v in vs {
        sum = sum.add(&rat_of_decimal(*v));
    }
    let mean = sum.div(&Rat::int(vs.len() as i128));
    let max = Mag::from_u128(79228162514264337593543950335u128);
    for k in (0..=28u32).rev() {
        let (n, _) = mean.p.mul(&Mag::pow10(k)).divrem(&mean.q);
        if n.cmp(&max) != std::cmp::Ordering::Greater {
            let mut d = Decimal::try_from_i128_with_scale(n.to_u128()? as i128, k).ok()?;
            d.set_sign_negative(mean.neg && !d.is_zero());
            return Some(d);
        }
    }
    None
}

/// compare a subject Decimal against the reference under Q (numeric comparison, scale ignored)
pub fn matches(got: Decimal, want: Decimal, q: Q) -> bool {
    match q {
        Q::Skip => true,
        Q::Exact => got == want,
        // a Decimal resolves 1e-28 at best: an inexact result may differ by one unit in the last place
        Q::Tol(t) => match got.checked_sub(want) {
            Some(d) => f(d).abs() <= t + 1.0000001e-28,
            None => false,
        },
        Q::Near(real, tol) => (f(got) - real).abs() <= tol,
        Q::Lambert(x) => {
            let w = f(got);
            if !(w >= -1.0 - 1e-9) {
                return false;
            }
            let lhs = w * w.exp();
            (lhs - x).abs() <= 1e-9 * x.abs().max(1e-28) + 1e-27
        }
    }
}
