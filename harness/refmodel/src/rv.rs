//! Reference verdicts shared by the evaluators.

/// How closely the subject's value has to match the reference value.
#[derive(Clone, Copy, Debug, PartialEq)]
pub enum Q {
    /// bit for bit (NaNs identified)
    Exact,
    /// absolute tolerance (already scaled); non-finite values must agree in kind
    Tol(f64),
    /// value w must satisfy w*e^w = x within 1e-9 relative and w >= -1 (Lambert W of x)
    Lambert(f64),
    /// integer result must lie within `tol` of the real number `real`
    Near(f64, f64),
    /// defined (so the call must not fail) but the value is not compared
    Skip,
}

#[derive(Clone, Debug, PartialEq)]
pub enum RV<T> {
    Val(T, Q),
    /// the statements require `Err` here
    MustErr(&'static str),
    /// the statements do not determine the outcome (reason)
    Unspec(&'static str),
}

impl<T> RV<T> {
    pub fn exact(v: T) -> Self {
        RV::Val(v, Q::Exact)
    }
}

/// a tolerance on an approximate operand cannot shrink below the spacing of the subnormal doubles (4.9e-324): the
/// relative terms underflow to zero there
pub const SUBNORMAL_FLOOR: f64 = 2e-323;

/// tolerance of a sum/difference/product/quotient of two approximations; None = give up (Skip)
pub fn q_add(a: Q, b: Q, v: f64) -> Q {
    match (tol_of(a), tol_of(b)) {
        (Some(x), Some(y)) => {
            if a == Q::Exact && b == Q::Exact {
                Q::Exact
            } else {
                Q::Tol(x + y + v.abs() * 1e-15 + SUBNORMAL_FLOOR)
            }
        }
        _ => Q::Skip,
    }
}

pub fn q_mul(a: Q, av: f64, b: Q, bv: f64, v: f64) -> Q {
    match (tol_of(a), tol_of(b)) {
        (Some(x), Some(y)) => {
            if a == Q::Exact && b == Q::Exact {
                Q::Exact
            } else {
                let t = av.abs() * y + bv.abs() * x + x * y + v.abs() * 1e-15 + SUBNORMAL_FLOOR;
                if t.is_finite() {
                    Q::Tol(t)
                } else {
                    Q::Skip
                }
            }
        }
        _ => Q::Skip,
    }
}

pub fn q_div(a: Q, av: f64, b: Q, bv: f64, v: f64) -> Q {
    match (tol_of(a), tol_of(b)) {
        (Some(x), Some(y)) => {
            if a == Q::Exact && b == Q::Exact {
                Q::Exact
            } else if bv.abs() > 4.0 * y && bv.is_finite() && av.is_finite() {
                let t = (x + v.abs() * y) / (bv.abs() - y) + v.abs() * 1e-15 + SUBNORMAL_FLOOR;
                if t.is_finite() {
                    Q::Tol(t)
                } else {
                    Q::Skip
                }
            } else {
                Q::Skip
            }
        }
        _ => Q::Skip,
    }
}

pub fn tol_of(q: Q) -> Option<f64> {
    match q {
        Q::Exact => Some(0.0),
        Q::Tol(t) => Some(t),
        _ => None,
    }
}

pub fn rel(v: f64, r: f64) -> Q {
    if v.is_finite() {
        Q::Tol(v.abs() * r)
    } else {
        Q::Tol(0.0)
    }
}

/// compare a subject f64 against a reference f64 under Q
pub fn f64_matches(got: f64, want: f64, q: Q) -> bool {
    match q {
        Q::Skip => true,
        Q::Exact => got.to_bits() == want.to_bits() || (got.is_nan() && want.is_nan()),
        Q::Tol(t) => {
            if want.is_nan() || got.is_nan() {
                return want.is_nan() && got.is_nan();
            }
            if want.is_infinite() || got.is_infinite() {
                return want == got;
            }
            (got - want).abs() <= t
        }
        Q::Near(real, tol) => (got - real).abs() <= tol,
        Q::Lambert(x) => {
            if !(got >= -1.0 - 1e-9) || !got.is_finite() {
                return false;
            }
            if x > 1e300 {
                // w*e^w itself may round to infinity next to f64::MAX: the same identity in logarithms
                return (got + got.ln() - x.ln()).abs() <= 1e-9;
            }
            let lhs = got * got.exp();
            (lhs - x).abs() <= 1e-9 * x.abs().max(1e-300) || (x == 0.0 && lhs.abs() < 1e-300)
        }
    }
}

/// Mean of finite doubles whose sum may overflow: the terms are scaled by 2^-12 (exact; a term that becomes
/// subnormal is far below the resolution of the result) and the result is clamped to the range of the largest term.
/// Returns (mean, mean of the magnitudes).
pub fn mean_scaled(vs: &[f64]) -> (f64, f64) {
    let sc = 2f64.powi(-12);
    let n = vs.len() as f64;
    debug_assert!(vs.len() <= 2048);
    let m = vs.iter().map(|v| v * sc).sum::<f64>() / n;
    let ma = vs.iter().map(|v| v.abs() * sc).sum::<f64>() / n;
    let big = vs.iter().fold(0.0f64, |a, v| a.max(v.abs()));
    let unscale = |x: f64| if x.abs() >= big * sc { big.copysign(x) } else { x / sc };
    (unscale(m), unscale(ma))
}
