//! Reference evaluator for eval_complex used by the grouping checks: own component formulas for
//! + - * and negation (exact), num_complex for everything that only needs a tolerance.
//! C08's independent principal-branch definitions live in cpxdefs.rs.
use crate::parse::*;
use crate::rv::*;
use crate::vocab::Func;
use num_complex::Complex;

pub type C = Complex<f64>;
type R = RV<C>;

fn lit(text: &str) -> f64 {
    text.parse::<f64>().expect("reference literal")
}

fn finite(z: C) -> bool {
    z.re.is_finite() && z.im.is_finite()
}

fn relc(z: C, r: f64) -> Q {
    if finite(z) {
        // a relative tolerance cannot be met to better than the spacing of the subnormals
        Q::Tol(z.norm() * r + 2e-323)
    } else {
        Q::Skip
    }
}

/// ln|z| without rounding |z| first: next to the unit circle through ln_1p(|z|^2 - 1) / 2, elsewhere on the components
/// scaled by a power of two (exact), so that neither an overflowing nor a subnormal modulus is formed
pub fn ln_modulus(re: f64, im: f64) -> f64 {
    let (m, s) = if re.abs() >= im.abs() { (re.abs(), im.abs()) } else { (im.abs(), re.abs()) };
    if m == 0.0 || !m.is_finite() {
        return re.hypot(im).ln();
    }
    let excess = (m - 1.0) * (m + 1.0) + s * s;
    if m > 0.5 && m < 2.0 && excess.abs() < 0.5 {
        return 0.5 * excess.ln_1p();
    }
    // m = f * 2^k with 1 <= f < 2 (subnormals included)
    let k = m.log2().floor() as i32;
    let down = |x: f64| x * 2f64.powi(-(k / 2)) * 2f64.powi(-(k - k / 2));
    down(m).hypot(down(s)).ln() + k as f64 * std::f64::consts::LN_2
}

fn ln_acc(z: C) -> C {
    C::new(ln_modulus(z.re, z.im), z.im.atan2(z.re))
}

fn approx(q: Q, z: C) -> R {
    if !finite(z) || z.norm() > 1e300 {
        return RV::Unspec("U3: non-finite complex result (or within rounding of overflow)");
    }
    match q {
        Q::Exact => RV::Val(z, relc(z, 1e-9)),
        _ => RV::Val(z, Q::Skip),
    }
}

/// z lies on (or within 1e-6 relative of) the negative real axis or is zero
fn on_neg_real_cut(z: C) -> bool {
    if !finite(z) {
        return true;
    }
    if z.re == 0.0 && z.im == 0.0 {
        return true;
    }
    z.re <= 0.0 && z.im.abs() <= 1e-6 * z.norm()
}

fn near_real_beyond(z: C, pred: impl Fn(f64) -> bool) -> bool {
    !finite(z) || (z.im.abs() <= 1e-6 * z.norm().max(1.0) && pred(z.re))
}

fn near_imag_beyond(z: C, pred: impl Fn(f64) -> bool) -> bool {
    !finite(z) || (z.re.abs() <= 1e-6 * z.norm().max(1.0) && pred(z.im))
}

pub fn mul(a: C, b: C) -> C {
    C::new(a.re * b.re - a.im * b.im, a.re * b.im + a.im * b.re)
}

pub fn eval(n: &Node, at: C) -> R {
    match &n.e {
        Expr::Lit { text, imag } => {
            let v = lit(text);
            RV::exact(if *imag { C::new(0.0, v) } else { C::new(v, 0.0) })
        }
        Expr::ImagUnit => RV::exact(C::new(0.0, 1.0)),
        Expr::At => RV::exact(at),
        Expr::Pi => RV::exact(C::new(std::f64::consts::PI, 0.0)),
        Expr::E => RV::exact(C::new(std::f64::consts::E, 0.0)),
        Expr::Neg(x) => match eval(x, at) {
            RV::Val(v, q) => RV::Val(C::new(-v.re, -v.im), q),
            o => o,
        },
        Expr::Pos(x) => eval(x, at),
        Expr::Group(GroupKind::Paren, x) => eval(x, at),
        Expr::Group(_, _) => RV::Unspec("not complex"),
        Expr::Sup(x, d) => match eval(x, at) {
            RV::Val(v, q) => pow(v, C::new(lit(d), 0.0), q),
            o => o,
        },
        Expr::Post(p, x) => match eval(x, at) {
            RV::Val(v, q) => match p {
                PostOp::Fact => RV::Unspec("not complex"),
                PostOp::Deg => {
                    let r = v * crate::ev_f64::DEG;
                    match tol_of(q) {
                        Some(t) if finite(r) && r.norm() < 1e300 => RV::Val(r, Q::Tol(t * crate::ev_f64::DEG + r.norm() * 1e-12)),
                        _ => RV::Val(r, Q::Skip),
                    }
                }
                PostOp::Rad => {
                    let r = v * crate::ev_f64::RAD;
                    match tol_of(q) {
                        Some(t) if finite(r) && r.norm() < 1e300 => RV::Val(r, Q::Tol(t * crate::ev_f64::RAD + r.norm() * 1e-9)),
                        _ => RV::Val(r, Q::Skip),
                    }
                }
            },
            o => o,
        },
        Expr::Bin(b, l, r) => {
            let (a, aq) = match eval(l, at) {
                RV::Val(v, q) => (v, q),
                o => return o,
            };
            let (c, cq) = match eval(r, at) {
                RV::Val(v, q) => (v, q),
                o => return o,
            };
            let both = aq == Q::Exact && cq == Q::Exact;
            match b {
                BinOp::Add | BinOp::Sub => {
                    let v = if *b == BinOp::Add {
                        C::new(a.re + c.re, a.im + c.im)
                    } else {
                        C::new(a.re - c.re, a.im - c.im)
                    };
                    if !finite(v) {
                        return RV::Val(v, if both { Q::Exact } else { Q::Skip });
                    }
                    RV::Val(v, q_add(aq, cq, v.norm()))
                }
                BinOp::Mul | BinOp::Impl => {
                    let v = mul(a, c);
                    if !finite(v) {
                        return RV::Val(v, if both { Q::Exact } else { Q::Skip });
                    }
                    RV::Val(v, q_mul(aq, a.norm(), cq, c.norm(), v.norm()))
                }
                BinOp::Div => {
                    let v = div_scaled(a, c);
                    if !finite(v) || !finite(a) || !finite(c) {
                        return RV::Unspec("U3: non-finite complex quotient");
                    }
                    let tiny = |z: C| z.norm() < 1e-300 && z.norm() > 0.0;
                    if c.re.abs().max(c.im.abs()) > 1e300 || tiny(v) || tiny(a) || tiny(c) {
                        return RV::Unspec("U3: complex quotient at the ends of the exponent range");
                    }
                    let q = match q_div(aq, a.norm(), cq, c.norm(), v.norm()) {
                        Q::Exact => Q::Tol(1e-12 * v.norm()),
                        Q::Tol(t) => Q::Tol(t + 1e-12 * v.norm()),
                        o => o,
                    };
                    RV::Val(v, q)
                }
                BinOp::Pow => pow(a, c, if both { Q::Exact } else { Q::Skip }),
                _ => RV::Unspec("not complex"),
            }
        }
        Expr::Call(f, args) => {
            let mut vs: Vec<C> = Vec::new();
            let mut q = Q::Exact;
            for a in args {
                match eval(a, at) {
                    RV::Val(v, vq) => {
                        if vq != Q::Exact {
                            q = Q::Skip;
                        }
                        vs.push(v);
                    }
                    o => return o,
                }
            }
            use Func::*;
            if vs.iter().any(|v| !finite(*v)) {
                // e.g. exp2(-inf - inf i): a zero modulus times an undefined direction
                return RV::Unspec("U3: function of a non-finite complex argument");
            }
            let z = vs[0];
            match f {
                Abs => {
                    if !finite(z) {
                        return RV::Unspec("U3: modulus of a non-finite value");
                    }
                    let v = C::new(z.norm(), 0.0);
                    match q {
                        Q::Exact => RV::Val(v, relc(v, 1e-12)),
                        _ => RV::Val(v, Q::Skip),
                    }
                }
                Pow => pow(z, vs[1], q),
                Root => {
                    // root(n, x) = x^(1/n)
                    if vs[0].norm() == 0.0 || !finite(vs[0]) {
                        return RV::Unspec("U3: zeroth root");
                    }
                    let b = div_scaled(C::new(1.0, 0.0), vs[0]);
                    if b.re.abs() < 4.0 * f64::MIN_POSITIVE && b.im.abs() < 4.0 * f64::MIN_POSITIVE {
                        // the convention x^(1/n) with 1/n formed in doubles: it underflows, and x^0 follows from it
                        return RV::Unspec("U3: 1/n underflows");
                    }
                    pow(vs[1], b, q)
                }
                Sqrt => {
                    if z.norm() == 0.0 {
                        // the branch point itself: every branch gives 0
                        return approx(q, C::new(0.0, 0.0));
                    }
                    if on_neg_real_cut(z) {
                        return RV::Unspec("U3: sqrt on its branch cut");
                    }
                    approx(q, z.sqrt())
                }
                Ln => {
                    if on_neg_real_cut(z) {
                        return RV::Unspec("U3: ln on its branch cut");
                    }
                    approx(q, ln_acc(z))
                }
                Lb => {
                    if on_neg_real_cut(z) {
                        return RV::Unspec("U3: lb on its branch cut");
                    }
                    approx(q, ln_acc(z) / std::f64::consts::LN_2)
                }
                Log => {
                    if on_neg_real_cut(z) || on_neg_real_cut(vs[1]) || vs[1] == C::new(1.0, 0.0) {
                        return RV::Unspec("U3: log on a branch cut");
                    }
                    approx(q, div_scaled(ln_acc(z), ln_acc(vs[1])))
                }
                Exp => approx(q, z.exp()),
                Exp2 => approx(q, (z * std::f64::consts::LN_2).exp()),
                Sin => approx(q, z.sin()),
                Cos => approx(q, z.cos()),
                Tan => approx(q, {
                    let w = tanh_acc(C::new(-z.im, z.re));
                    C::new(w.im, -w.re)
                }),
                Sinh => approx(q, z.sinh()),
                Cosh => approx(q, z.cosh()),
                Tanh => approx(q, tanh_acc(z)),
                Asin | Acos => {
                    if near_real_beyond(z, |x| x.abs() >= 1.0 - 1e-6) {
                        return RV::Unspec("U3: asin/acos on a branch cut");
                    }
                    approx(
                        q,
                        if *f == Asin {
                            // asin(z) = -i asinh(iz)
                            let w = asinh_acc(C::new(-z.im, z.re));
                            C::new(w.im, -w.re)
                        } else {
                            // Kahan: accurate next to z = +-1, where the library's logarithm form cancels
                            let a = (C::new(1.0, 0.0) - z).sqrt();
                            let b = (C::new(1.0, 0.0) + z).sqrt();
                            C::new(2.0 * a.re.atan2(b.re), crate::ev_f64::asinh_acc((b.conj() * a).im))
                        },
                    )
                }
                Atan => {
                    if near_imag_beyond(z, |y| y.abs() >= 1.0 - 1e-6) {
                        return RV::Unspec("U3: atan on a branch cut");
                    }
                    approx(q, {
                        // atan(z) = -i atanh(iz)
                        let w = atanh_acc(C::new(-z.im, z.re));
                        C::new(w.im, -w.re)
                    })
                }
                Asinh => {
                    if near_imag_beyond(z, |y| y.abs() >= 1.0 - 1e-6) {
                        return RV::Unspec("U3: asinh on a branch cut");
                    }
                    approx(q, asinh_acc(z))
                }
                Acosh => {
                    if near_real_beyond(z, |x| x <= 1.0 + 1e-6) {
                        return RV::Unspec("U3: acosh on a branch cut");
                    }
                    approx(q, {
                        let a = (z - C::new(1.0, 0.0)).sqrt();
                        let b = (z + C::new(1.0, 0.0)).sqrt();
                        C::new(crate::ev_f64::asinh_acc((a.conj() * b).re), 2.0 * a.im.atan2(b.re))
                    })
                }
                Atanh => {
                    if near_real_beyond(z, |x| x.abs() >= 1.0 - 1e-6) {
                        return RV::Unspec("U3: atanh on a branch cut");
                    }
                    approx(q, atanh_acc(z))
                }
                _ => RV::Unspec("not complex"),
            }
        }
    }
}

/// asinh away from the library's weak spots: f(z) = z below 1e-8, odd symmetry for Re z < 0 (the library's
/// ln(z + sqrt(z^2 + 1)) cancels there), ln(2z) beyond 1e150
fn asinh_acc(z: C) -> C {
    if z.re < 0.0 {
        return -asinh_acc(-z);
    }
    let n = z.norm();
    if n < 1e-3 {
        // four terms of the series: the next one is below 1e-27 relative
        let z2 = z * z;
        z * (C::new(1.0, 0.0) - z2 / 6.0 + z2 * z2 * (3.0 / 40.0) - z2 * z2 * z2 * (15.0 / 336.0))
    } else if n > 1e150 {
        z.ln() + std::f64::consts::LN_2
    } else {
        z.asinh()
    }
}

/// atanh with the series below 1e-3 (the library's (ln(1 + z) - ln(1 - z)) / 2 loses a small z against 1)
fn atanh_acc(z: C) -> C {
    if z.norm() < 1e-3 {
        let z2 = z * z;
        z * (C::new(1.0, 0.0) + z2 / 3.0 + z2 * z2 / 5.0 + z2 * z2 * z2 / 7.0)
    } else {
        z.atanh()
    }
}

/// tanh(x + iy) from the real tanh, tan and cosh (no overflow for large |x|, no 0/0 next to the poles)
fn tanh_acc(z: C) -> C {
    let h = z.re.tanh();
    let t = z.im.tan();
    let c = z.re.cosh();
    let d = 1.0 + h * h * t * t;
    C::new(h * (1.0 + t * t) / d, t / (c * c) / d)
}

/// a / c with both operands scaled by a power of two first, so that |c|^2 neither overflows nor underflows
fn div_scaled(a: C, c: C) -> C {
    let m = c.re.abs().max(c.im.abs());
    if m == 0.0 || !m.is_finite() {
        return a / c;
    }
    // exact scaling by 2^-e with 2^e <= m < 2^(e+1), applied in two steps to stay inside the exponent range
    let e = m.log2().floor() as i32;
    let (h1, h2) = (e / 2, e - e / 2);
    let s = |x: f64| x * 2f64.powi(-h1) * 2f64.powi(-h2);
    let cs = C::new(s(c.re), s(c.im));
    let q = a / cs;
    C::new(s(q.re), s(q.im))
}

fn pow(a: C, b: C, q: Q) -> R {
    if !finite(a) || !finite(b) {
        return RV::Unspec("U3: non-finite power");
    }
    if a.norm() == 0.0 {
        // zero is the branch point of the logarithm, so C08's "away from branch cuts" leaves 0^b open for complex b;
        // for real operands the real-domain clause fixes it: eval_f64's 0^b is 0 for b > 0 and 1 for b = 0
        if b.norm() == 0.0 {
            return approx(q, C::new(1.0, 0.0));
        }
        if b.re > 0.0 && b.im == 0.0 {
            return approx(q, C::new(0.0, 0.0));
        }
        return RV::Unspec("U3: zero to a complex or non-positive power");
    }
    if on_neg_real_cut(a) {
        return RV::Unspec("U3: power with its base on the branch cut");
    }
    if (b * a.ln()).norm() > 1e6 {
        // exp(b ln a): the relative error of the result is |b ln a| times that of the operands (1e-16 at best)
        return RV::Unspec("U3: power too ill-conditioned for double precision");
    }
    approx(q, a.powc(b))
}

pub fn matches(got: C, want: C, q: Q) -> bool {
    match q {
        Q::Skip => true,
        Q::Exact => {
            let same = |x: f64, y: f64| x.to_bits() == y.to_bits() || (x.is_nan() && y.is_nan());
            same(got.re, want.re) && same(got.im, want.im)
        }
        Q::Tol(t) => {
            if !finite(got) || !finite(want) {
                return false;
            }
            (got - want).norm() <= t
        }
        _ => false,
    }
}
