//! Reference evaluator for eval_f64: the std / libm operation of the same name at every node.
use crate::parse::*;
use crate::rv::*;
use crate::vocab::Func;

extern "C" {
    fn tgamma(x: f64) -> f64;
}

pub fn gamma(x: f64) -> f64 {
    unsafe { tgamma(x) }
}

pub const DEG: f64 = std::f64::consts::PI / 180.0;
pub const RAD: f64 = 180.0 / std::f64::consts::PI;

type R = RV<f64>;

fn un(x: R, f: impl Fn(f64, Q) -> R) -> R {
    match x {
        RV::Val(v, q) => f(v, q),
        other => other,
    }
}

/// result of an operation that is exact given exact inputs (IEEE / C-library op of C05)
fn exact_op(q: Q, v: f64) -> R {
    match q {
        Q::Exact => RV::Val(v, Q::Exact),
        _ => RV::Val(v, Q::Skip),
    }
}

/// result of a 1e-9-relative function given its input quality
fn approx_fn(q: Q, v: f64) -> R {
    match q {
        Q::Exact => RV::Val(v, rel(v, 1e-9)),
        _ => RV::Val(v, Q::Skip),
    }
}

pub fn factorial(x: f64, q: Q) -> R {
    if x.is_nan() || x.is_infinite() {
        return RV::Unspec("U3: factorial of a non-finite value");
    }
    if x.fract() == 0.0 {
        if x < 0.0 {
            return RV::Unspec("U3: factorial of a negative integer");
        }
        if x > 170.0 {
            return exact_op(q, f64::INFINITY);
        }
        let mut r = 1.0f64;
        let mut i = 2.0;
        while i <= x {
            r *= i;
            i += 1.0;
        }
        if q != Q::Exact {
            return RV::Val(r, Q::Skip);
        }
        if x <= 22.0 {
            RV::Val(r, Q::Exact)
        } else {
            RV::Val(r, rel(r, 1e-12))
        }
    } else if x.abs() <= 150.0 {
        let g = gamma(x + 1.0);
        approx_fn(q, g)
    } else {
        RV::Unspec("U3: non-integer factorial beyond |x| <= 150")
    }
}

pub fn lambert(x: f64, q: Q) -> R {
    if x.is_nan() || x.is_infinite() {
        return RV::Unspec("U3: W of a non-finite value");
    }
    if x < -(-1.0f64).exp() {
        return RV::Unspec("U3: W below -1/e");
    }
    if x == -(-1.0f64).exp() {
        // the rounded -1/e may lie on either side of the true branch point
        return RV::Unspec("U3: W at the branch point");
    }
    match q {
        Q::Exact => RV::Val(f64::NAN, Q::Lambert(x)),
        // an approximately known argument close to the branch point may fall outside the domain
        _ if x < -0.36 => RV::Unspec("U3: W of an approximate argument near -1/e"),
        _ => RV::Val(f64::NAN, Q::Skip),
    }
}

pub fn lit(text: &str) -> f64 {
    text.parse::<f64>().expect("reference literal")
}

pub fn eval(n: &Node, at: f64) -> R {
    match &n.e {
        Expr::Lit { text, .. } => RV::exact(lit(text)),
        Expr::ImagUnit => RV::Unspec("not f64"),
        Expr::At => RV::exact(at),
        Expr::Pi => RV::exact(std::f64::consts::PI),
        Expr::E => RV::exact(std::f64::consts::E),
        // (a Lambert-quality value is not produced by the reference: its negation is defined but not compared)
        Expr::Neg(x) => un(eval(x, at), |v, q| RV::Val(-v, if matches!(q, Q::Lambert(_)) { Q::Skip } else { q })),
        Expr::Pos(x) => eval(x, at),
        Expr::Group(k, x) => un(eval(x, at), |v, q| match k {
            GroupKind::Paren => RV::Val(v, q),
            GroupKind::Floor => exact_op(q, v.floor()),
            GroupKind::Ceil => exact_op(q, v.ceil()),
        }),
        Expr::Sup(x, d) => un(eval(x, at), |v, q| exact_op(q, v.powf(lit(d)))),
        Expr::Post(p, x) => un(eval(x, at), |v, q| match p {
            PostOp::Fact => factorial(v, q),
            PostOp::Deg => {
                let r = v * DEG;
                match tol_of(q) {
                    // within rounding of overflow the tolerance cannot tell inf from a finite value
                    Some(_) if v.is_finite() && !(r.abs() < 1e300) => RV::Val(r, Q::Skip),
                    Some(t) => RV::Val(r, Q::Tol(t * DEG + r.abs() * 1e-12)),
                    None => RV::Val(r, Q::Skip),
                }
            }
            PostOp::Rad => {
                let r = v * RAD;
                match tol_of(q) {
                    Some(_) if v.is_finite() && !(r.abs() < 1e300) => RV::Val(r, Q::Skip),
                    Some(t) => RV::Val(r, Q::Tol(t * RAD + r.abs() * 1e-9)),
                    None => RV::Val(r, Q::Skip),
                }
            }
        }),
        Expr::Bin(b, l, r) => {
            let (lv, lq) = match eval(l, at) {
                RV::Val(v, q) => (v, q),
                other => return other,
            };
            let (rv, rq) = match eval(r, at) {
                RV::Val(v, q) => (v, q),
                other => return other,
            };
            let both_exact = lq == Q::Exact && rq == Q::Exact;
            match b {
                BinOp::Add => {
                    let v = lv + rv;
                    RV::Val(v, q_add(lq, rq, v))
                }
                BinOp::Sub => {
                    let v = lv - rv;
                    RV::Val(v, q_add(lq, rq, v))
                }
                BinOp::Mul | BinOp::Impl => {
                    let v = lv * rv;
                    RV::Val(v, q_mul(lq, lv, rq, rv, v))
                }
                BinOp::Div => {
                    let v = lv / rv;
                    RV::Val(v, q_div(lq, lv, rq, rv, v))
                }
                BinOp::Rem => RV::Val(lv % rv, if both_exact { Q::Exact } else { Q::Skip }),
                BinOp::Pow => RV::Val(lv.powf(rv), if both_exact { Q::Exact } else { Q::Skip }),
                _ => RV::Unspec("not f64"),
            }
        }
        Expr::Call(f, args) => call(*f, args, at),
    }
}

fn call(f: Func, args: &[Node], at: f64) -> R {
    let mut vs = Vec::with_capacity(args.len());
    let mut all_exact = true;
    for a in args {
        match eval(a, at) {
            RV::Val(v, q) => {
                if q != Q::Exact {
                    all_exact = false;
                }
                vs.push(v);
            }
            other => return other,
        }
    }
    let q = if all_exact { Q::Exact } else { Q::Skip };
    use Func::*;
    match f {
        Abs => exact_op(q, vs[0].abs()),
        Floor => exact_op(q, vs[0].floor()),
        Ceil => exact_op(q, vs[0].ceil()),
        Trunc => exact_op(q, vs[0].trunc()),
        Round => exact_op(q, vs[0].round()),
        Sqrt => exact_op(q, vs[0].sqrt()),
        Pow => exact_op(q, vs[0].powf(vs[1])),
        Mod => exact_op(q, vs[0] % vs[1]),
        Sign => {
            let x = vs[0];
            if x.is_nan() {
                RV::Unspec("U3: sgn(NaN)")
            } else if x > 0.0 {
                exact_op(q, 1.0)
            } else if x < 0.0 {
                exact_op(q, -1.0)
            } else {
                // the sign of the zero is not specified
                RV::Val(0.0, if all_exact { Q::Tol(0.0) } else { Q::Skip })
            }
        }
        Sin => approx_fn(q, vs[0].sin()),
        Cos => approx_fn(q, vs[0].cos()),
        Tan => approx_fn(q, vs[0].tan()),
        Sinh => approx_fn(q, vs[0].sinh()),
        Cosh => approx_fn(q, vs[0].cosh()),
        Tanh => approx_fn(q, vs[0].tanh()),
        Asin => approx_fn(q, vs[0].asin()),
        Acos => approx_fn(q, vs[0].acos()),
        Atan => approx_fn(q, vs[0].atan()),
        Asinh => approx_fn(q, asinh_acc(vs[0])),
        Acosh => approx_fn(q, acosh_acc(vs[0])),
        Atanh => approx_fn(q, atanh_acc(vs[0])),
        Atan2 => approx_fn(q, vs[0].atan2(vs[1])),
        Ln => approx_fn(q, vs[0].ln()),
        Lb => approx_fn(q, vs[0].log2()),
        Log => approx_fn(q, vs[0].ln() / vs[1].ln()),
        Exp => approx_fn(q, vs[0].exp()),
        Exp2 => approx_fn(q, vs[0].exp2()),
        Root => approx_fn(q, vs[1].powf(1.0 / vs[0])),
        LambertW => lambert(vs[0], q),
        ILog => RV::Unspec("U3: ilog is not specified"),
        Min | Max | Avg | Med => {
            if vs.iter().any(|v| !v.is_finite()) {
                return RV::Unspec("U3: aggregate of a non-finite argument");
            }
            if vs.is_empty() {
                // only avg() reaches here
                return RV::Val(0.0, Q::Tol(0.0));
            }
            let tiny = |v: f64| if all_exact { Q::Tol(v.abs() * 1e-15) } else { Q::Skip };
            match f {
                Min => {
                    let m = vs.iter().cloned().fold(f64::INFINITY, f64::min);
                    RV::Val(m, if all_exact { Q::Tol(0.0) } else { Q::Skip })
                }
                Max => {
                    let m = vs.iter().cloned().fold(f64::NEG_INFINITY, f64::max);
                    RV::Val(m, if all_exact { Q::Tol(0.0) } else { Q::Skip })
                }
                Avg => {
                    let s: f64 = vs.iter().sum();
                    let sa: f64 = vs.iter().map(|v| v.abs()).sum();
                    let n = vs.len() as f64;
                    if !s.is_finite() || !sa.is_finite() {
                        if !vs.iter().all(|v| v.is_finite()) {
                            return RV::Unspec("U3: non-finite operand inside avg");
                        }
                        // only the sum overflows; the mean of finite doubles lies between the smallest and the largest of
                        // them, so it always has a finite value
                        let (m, ma) = crate::rv::mean_scaled(&vs);
                        return RV::Val(m, if all_exact { Q::Tol(ma * 1e-14) } else { Q::Skip });
                    }
                    let v = s / n;
                    RV::Val(
                        v,
                        if all_exact {
                            Q::Tol(sa * 1e-15)
                        } else {
                            Q::Skip
                        },
                    )
                }
                _ => {
                    let mut s = vs.clone();
                    s.sort_by(|a, b| a.partial_cmp(b).unwrap());
                    let l = s.len();
                    if l % 2 == 1 {
                        RV::Val(s[l / 2], if all_exact { Q::Tol(0.0) } else { Q::Skip })
                    } else {
                        let a = s[l / 2 - 1];
                        let b = s[l / 2];
                        if !(a + b).is_finite() {
                            if a.is_finite() && b.is_finite() {
                                let v = a / 2.0 + b / 2.0;
                                return RV::Val(v, tiny(a.abs() / 2.0 + b.abs() / 2.0));
                            }
                            return RV::Unspec("U3: non-finite middle value inside med");
                        }
                        let v = (a + b) / 2.0;
                        RV::Val(v, tiny(a.abs() + b.abs()))
                    }
                }
            }
        }
        Gcd | Lcm => RV::Unspec("not f64"),
    }
}

// Inverse hyperbolic functions written out from libm's ln / ln_1p / sqrt (the fdlibm formulas): Rust's own
// f64::asinh / acosh / atanh are not libm functions and lose accuracy in places (atanh next to -1).
pub fn atanh_acc(x: f64) -> f64 {
    let a = x.abs();
    if a.is_nan() || a > 1.0 {
        return f64::NAN;
    }
    (0.5 * (2.0 * a / (1.0 - a)).ln_1p()).copysign(x)
}

pub fn asinh_acc(x: f64) -> f64 {
    let a = x.abs();
    let r = if a.is_nan() || a.is_infinite() {
        a
    } else if a > 1e150 {
        a.ln() + std::f64::consts::LN_2
    } else {
        // ln(a + sqrt(a^2 + 1)) = ln_1p(a + a^2 / (1 + sqrt(a^2 + 1)))
        (a + a * a / (1.0 + (a * a + 1.0).sqrt())).ln_1p()
    };
    r.copysign(x)
}

pub fn acosh_acc(x: f64) -> f64 {
    if x.is_nan() || x < 1.0 {
        return f64::NAN;
    }
    if x > 1e150 {
        return x.ln() + std::f64::consts::LN_2;
    }
    // ln(x + sqrt(x^2 - 1)) with t = x - 1: ln_1p(t + sqrt(2t + t^2))
    let t = x - 1.0;
    (t + (2.0 * t + t * t).sqrt()).ln_1p()
}
