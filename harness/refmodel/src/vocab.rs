//! Per-evaluator vocabulary tables, written from the README and the property statements.

#[derive(Clone, Copy, PartialEq, Eq, Debug, Hash, PartialOrd, Ord)]
pub enum Ev {
    F64,
    I64,
    Dec,
    Cpx,
    Num,
}

pub const ALL_EVS: [Ev; 5] = [Ev::F64, Ev::I64, Ev::Dec, Ev::Cpx, Ev::Num];

impl Ev {
    pub fn name(self) -> &'static str {
        match self {
            Ev::F64 => "f64",
            Ev::I64 => "i64",
            Ev::Dec => "decimal",
            Ev::Cpx => "complex",
            Ev::Num => "number",
        }
    }
    pub fn from_name(s: &str) -> Option<Ev> {
        ALL_EVS.iter().copied().find(|e| e.name() == s)
    }
    pub fn has_consts(self) -> bool {
        self != Ev::I64
    }
    pub fn has_deg_rad(self) -> bool {
        matches!(self, Ev::F64 | Ev::Cpx | Ev::Num)
    }
    pub fn has_floor_brackets(self) -> bool {
        matches!(self, Ev::F64 | Ev::Dec | Ev::Num)
    }
    pub fn has_factorial(self) -> bool {
        self != Ev::Cpx
    }
    pub fn has_percent(self) -> bool {
        self != Ev::Cpx
    }
    pub fn has_bitops(self) -> bool {
        self == Ev::I64
    }
    pub fn has_point(self) -> bool {
        self != Ev::I64
    }
}

#[derive(Clone, Copy, PartialEq, Eq, Debug, Hash)]
pub enum Func {
    Sin,
    Cos,
    Tan,
    Sinh,
    Cosh,
    Tanh,
    Asin,
    Acos,
    Atan,
    Atan2,
    Asinh,
    Acosh,
    Atanh,
    Ln,
    Lb,
    Log,
    ILog,
    Pow,
    Sqrt,
    Root,
    Exp,
    Exp2,
    LambertW,
    Abs,
    Sign,
    Trunc,
    Floor,
    Ceil,
    Round,
    Min,
    Max,
    Avg,
    Med,
    Mod,
    Gcd,
    Lcm,
}

#[derive(Clone, Copy, PartialEq, Eq, Debug)]
pub enum Arity {
    Fixed(usize),
    /// one or more arguments
    Var1,
    /// zero or more arguments (avg)
    Var0,
}

impl Func {
    pub fn arity(self) -> Arity {
        use Func::*;
        match self {
            Atan2 | Log | ILog | Pow | Root | Mod => Arity::Fixed(2),
            Min | Max | Med | Gcd | Lcm => Arity::Var1,
            Avg => Arity::Var0,
            _ => Arity::Fixed(1),
        }
    }
}

use Func::*;

const F64_NAMES: &[(&str, Func)] = &[
    ("sin", Sin),
    ("cos", Cos),
    ("tan", Tan),
    ("sinh", Sinh),
    ("cosh", Cosh),
    ("tanh", Tanh),
    ("asin", Asin),
    ("acos", Acos),
    ("atan", Atan),
    ("atan2", Atan2),
    ("asinh", Asinh),
    ("arsinh", Asinh),
    ("acosh", Acosh),
    ("arcosh", Acosh),
    ("atanh", Atanh),
    ("artanh", Atanh),
    ("ln", Ln),
    ("lb", Lb),
    ("log", Log),
    ("ilog", ILog),
    ("pow", Pow),
    ("sqrt", Sqrt),
    ("root", Root),
    ("exp", Exp),
    ("exp2", Exp2),
    ("lambert_w", LambertW),
    ("w", LambertW),
    ("abs", Abs),
    ("sgn", Sign),
    ("sign", Sign),
    ("signum", Sign),
    ("trunc", Trunc),
    ("truncate", Trunc),
    ("floor", Floor),
    ("ceil", Ceil),
    ("round", Round),
    ("min", Min),
    ("max", Max),
    ("avg", Avg),
    ("med", Med),
    ("median", Med),
    ("mod", Mod),
];

const DEC_NAMES: &[(&str, Func)] = &[
    ("abs", Abs),
    ("avg", Avg),
    ("ceil", Ceil),
    ("exp2", Exp2),
    ("exp", Exp),
    ("floor", Floor),
    ("ilog", ILog),
    ("lambert_w", LambertW),
    ("w", LambertW),
    ("log", Log),
    ("ln", Ln),
    ("lb", Lb),
    ("median", Med),
    ("med", Med),
    ("min", Min),
    ("max", Max),
    ("mod", Mod),
    ("pow", Pow),
    ("round", Round),
    ("root", Root),
    ("signum", Sign),
    ("sign", Sign),
    ("sgn", Sign),
    ("sqrt", Sqrt),
    ("truncate", Trunc),
    ("trunc", Trunc),
];

const I64_NAMES: &[(&str, Func)] = &[
    ("abs", Abs),
    ("avg", Avg),
    ("exp2", Exp2),
    ("exp", Exp),
    ("gcd", Gcd),
    ("lcm", Lcm),
    ("log", Log),
    ("ln", Ln),
    ("lb", Lb),
    ("median", Med),
    ("med", Med),
    ("min", Min),
    ("max", Max),
    ("mod", Mod),
    ("pow", Pow),
    ("root", Root),
    ("signum", Sign),
    ("sign", Sign),
    ("sgn", Sign),
    ("sqrt", Sqrt),
];

const CPX_NAMES: &[(&str, Func)] = &[
    ("arsinh", Asinh),
    ("arcosh", Acosh),
    ("artanh", Atanh),
    ("asinh", Asinh),
    ("acosh", Acosh),
    ("atanh", Atanh),
    ("asin", Asin),
    ("acos", Acos),
    ("atan", Atan),
    ("abs", Abs),
    ("cosh", Cosh),
    ("cos", Cos),
    ("exp2", Exp2),
    ("exp", Exp),
    ("log", Log),
    ("ln", Ln),
    ("lb", Lb),
    ("pow", Pow),
    ("root", Root),
    ("sinh", Sinh),
    ("sqrt", Sqrt),
    ("sin", Sin),
    ("tanh", Tanh),
    ("tan", Tan),
];

pub fn func_names(ev: Ev) -> &'static [(&'static str, Func)] {
    match ev {
        Ev::F64 | Ev::Num => F64_NAMES,
        Ev::Dec => DEC_NAMES,
        Ev::I64 => I64_NAMES,
        Ev::Cpx => CPX_NAMES,
    }
}

/// Every keyword pattern of any evaluator, as the lexers see it (function names carry their '(').
pub fn all_keyword_patterns() -> Vec<String> {
    let mut v: Vec<String> = Vec::new();
    for ev in ALL_EVS {
        for (n, _) in func_names(ev) {
            let p = format!("{}(", n);
            if !v.contains(&p) {
                v.push(p);
            }
        }
    }
    for c in ["pi", "rad", "e", "i"] {
        v.push(c.to_string());
    }
    v
}

/// The 25 characters with the Unicode White_Space property.
pub const WHITE_SPACE: [char; 25] = [
    '\u{0009}', '\u{000A}', '\u{000B}', '\u{000C}', '\u{000D}', '\u{0020}', '\u{0085}', '\u{00A0}',
    '\u{1680}', '\u{2000}', '\u{2001}', '\u{2002}', '\u{2003}', '\u{2004}', '\u{2005}', '\u{2006}',
    '\u{2007}', '\u{2008}', '\u{2009}', '\u{200A}', '\u{2028}', '\u{2029}', '\u{202F}', '\u{205F}',
    '\u{3000}',
];

pub fn strip_ws(s: &str) -> Vec<char> {
    s.chars().filter(|c| !WHITE_SPACE.contains(c)).collect()
}

pub const SUPERSCRIPTS: [char; 10] = ['⁰', '¹', '²', '³', '⁴', '⁵', '⁶', '⁷', '⁸', '⁹'];

pub fn sup_digit(c: char) -> Option<char> {
    SUPERSCRIPTS
        .iter()
        .position(|&s| s == c)
        .map(|i| (b'0' + i as u8) as char)
}
