//! Exact-rational reference for C07: + - * / % and unary minus on decimal literals.
use crate::big::*;
use crate::parse::*;
use rust_decimal::Decimal;
use std::cmp::Ordering;

#[derive(Clone, Debug)]
pub enum XV {
    /// exactly this rational, which is representable (96-bit coefficient, <= 28 fractional digits)
    Exact(Rat),
    /// quotient that is not representable: within 1e-27 * max(1, |q|) of this rational
    Approx(Rat),
    MustErr(&'static str),
    Unspec(&'static str),
}

pub fn rat_of_decimal(d: Decimal) -> Rat {
    let m = d.mantissa();
    Rat::new(m < 0, Mag::from_u128(m.unsigned_abs()), Mag::pow10(d.scale()))
}

fn max_coeff() -> Mag {
    Mag::from_u128((1u128 << 96) - 1)
}

/// classify an exact mathematical result
fn settle(r: Rat, quotient: bool) -> XV {
    // |r| >= MAX + 1  -> outside the range; MAX < |r| < MAX + 1 -> unspecified (rounds to MAX)
    let max = Rat::new(false, max_coeff(), Mag::from_u128(1));
    let max1 = Rat::new(false, Mag::from_u128(1u128 << 96), Mag::from_u128(1));
    if r.cmp_abs(&max1) != Ordering::Less {
        return XV::MustErr("result outside the Decimal range");
    }
    if r.cmp_abs(&max) == Ordering::Greater {
        return XV::Unspec("U3: result between Decimal::MAX and MAX+1");
    }
    match r.as_decimal() {
        Some((m, _s)) => {
            if m.cmp(&max_coeff()) != Ordering::Greater {
                XV::Exact(r)
            } else if quotient {
                XV::Approx(r)
            } else {
                XV::Unspec("U3: result needs more than 96 bits of coefficient")
            }
        }
        None => {
            if quotient {
                XV::Approx(r)
            } else {
                XV::Unspec("U3: result not representable with 28 fractional digits")
            }
        }
    }
}

pub fn lit(text: &str) -> Option<Rat> {
    let (ip, fp) = match text.split_once('.') {
        Some((a, b)) => (a, b),
        None => (text, ""),
    };
    let all: String = format!("{}{}", ip, fp);
    let sig = all.trim_start_matches('0');
    // zeros at the end of the fraction are significant digits, but they do not change the value: a literal with at
    // most 28 significant digits denotes a Decimal as soon as its fraction without them has at most 28 digits
    let fp = fp.trim_end_matches('0');
    if sig.len() > 28 || fp.len() > 28 {
        return None;
    }
    let digits: String = format!("{}{}", ip, fp);
    let r = Rat::new(false, Mag::from_decimal_digits(&digits), Mag::pow10(fp.len() as u32));
    match settle(r.clone(), false) {
        XV::Exact(_) => Some(r),
        _ => None,
    }
}

pub fn eval(n: &Node, at: Decimal) -> XV {
    match &n.e {
        Expr::Lit { text, .. } => match lit(text) {
            Some(r) => XV::Exact(r),
            None => XV::Unspec("U2: literal beyond 28 digits"),
        },
        Expr::At => XV::Exact(rat_of_decimal(at)),
        Expr::Neg(x) => match eval(x, at) {
            XV::Exact(r) => XV::Exact(r.neg()),
            XV::Approx(r) => XV::Approx(r.neg()),
            o => o,
        },
        Expr::Pos(x) => eval(x, at),
        Expr::Group(GroupKind::Paren, x) => eval(x, at),
        Expr::Bin(b, l, r) => {
            let a = match eval(l, at) {
                XV::Exact(r) => r,
                XV::Approx(_) => return XV::Unspec("U3: operand is a rounded quotient"),
                o => return o,
            };
            let c = match eval(r, at) {
                XV::Exact(r) => r,
                XV::Approx(_) => return XV::Unspec("U3: operand is a rounded quotient"),
                o => return o,
            };
            match b {
                BinOp::Add => settle(a.add(&c), false),
                BinOp::Sub => settle(a.sub(&c), false),
                BinOp::Mul | BinOp::Impl => settle(a.mul(&c), false),
                BinOp::Div => {
                    if c.is_zero() {
                        XV::MustErr("division by zero")
                    } else {
                        settle(a.div(&c), true)
                    }
                }
                BinOp::Rem => {
                    if c.is_zero() {
                        XV::MustErr("remainder by zero")
                    } else {
                        settle(a.rem(&c), false)
                    }
                }
                _ => XV::Unspec("not part of C07"),
            }
        }
        _ => XV::Unspec("not part of C07"),
    }
}

/// Some(true) agree, Some(false) disagree
pub fn matches_exact(got: Decimal, want: &Rat) -> bool {
    let g = rat_of_decimal(got);
    g.neg == want.neg && g.p.mul(&want.q) == want.p.mul(&g.q) || (g.is_zero() && want.is_zero())
}

pub fn matches_approx(got: Decimal, want: &Rat) -> bool {
    // |g - w| <= 1e-27 * max(1, |w|)
    let g = rat_of_decimal(got);
    let d = g.sub(want);
    // d = dp/dq ; bound = max(1,|w|) / 10^27
    let one = Rat::int(1);
    let w_abs = Rat::new(false, want.p.clone(), want.q.clone());
    let m = if w_abs.cmp_abs(&one) == Ordering::Greater { w_abs } else { one };
    let bound = Rat::new(false, m.p, m.q.mul(&Mag::pow10(27)));
    d.cmp_abs(&bound) != Ordering::Greater
}

pub fn show(r: &Rat) -> String {
    match r.as_decimal() {
        Some((m, s)) => {
            // print m / 10^s
            let mut digits = String::new();
            let mut t = m;
            if t.is_zero() {
                digits.push('0');
            }
            while !t.is_zero() {
                let (q, d) = t.divrem_small(10);
                digits.insert(0, (b'0' + d as u8) as char);
                t = q;
            }
            while digits.len() <= s as usize {
                digits.insert(0, '0');
            }
            let cut = digits.len() - s as usize;
            let out = if s > 0 {
                format!("{}.{}", &digits[..cut], &digits[cut..])
            } else {
                digits
            };
            format!("{}{}", if r.neg { "-" } else { "" }, out)
        }
        None => format!("~{:e}", r.to_f64()),
    }
}
