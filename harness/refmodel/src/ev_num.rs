//! Reference evaluator for eval_number: a typed Integer / Float evaluator following C09 literally.
use crate::parse::*;
use crate::rv::*;
use crate::vocab::Func;

#[derive(Clone, Copy, Debug, PartialEq)]
pub enum NV {
    Int(i64),
    Float(f64),
}

impl NV {
    pub fn f(self) -> f64 {
        match self {
            NV::Int(i) => i as f64,
            NV::Float(x) => x,
        }
    }
    pub fn is_int(self) -> bool {
        matches!(self, NV::Int(_))
    }
}

/// Reference value for Number: `typed` means variant and value must both match; otherwise only the
/// numeric value (as a double) is compared under `q`.
#[derive(Clone, Copy, Debug, PartialEq)]
pub struct NRef {
    pub v: NV,
    pub typed: bool,
}

type R = RV<NRef>;

const MIN: i128 = i64::MIN as i128;
const MAX: i128 = i64::MAX as i128;

fn int_or_float(exact: i128, fallback: f64, q: Q) -> R {
    if exact >= MIN && exact <= MAX {
        RV::Val(
            NRef {
                v: NV::Int(exact as i64),
                typed: true,
            },
            q,
        )
    } else {
        typed_float(fallback, q)
    }
}

/// numeric-only expectation
fn num(v: f64, q: Q) -> R {
    RV::Val(
        NRef {
            v: NV::Float(v),
            typed: false,
        },
        q,
    )
}

/// the variant-carrying Float result of an Integer-only step that had to fall back to doubles
fn typed_float(v: f64, q: Q) -> R {
    RV::Val(
        NRef {
            v: NV::Float(v),
            typed: true,
        },
        q,
    )
}

fn down(q: Q) -> Q {
    match q {
        Q::Exact => Q::Exact,
        _ => Q::Skip,
    }
}

fn approx(q: Q, v: f64) -> R {
    match q {
        Q::Exact => num(v, rel(v, 1e-9)),
        _ => num(v, Q::Skip),
    }
}

pub fn eval(n: &Node, at: NV) -> R {
    match &n.e {
        Expr::Lit { text, .. } => {
            if text.contains('.') {
                RV::Val(
                    NRef {
                        v: NV::Float(text.parse::<f64>().expect("reference literal")),
                        typed: true,
                    },
                    Q::Exact,
                )
            } else {
                match crate::ev_i64::lit(text) {
                    Some(v) => RV::Val(
                        NRef {
                            v: NV::Int(v),
                            typed: true,
                        },
                        Q::Exact,
                    ),
                    None => RV::Unspec("U2: integer literal beyond i64"),
                }
            }
        }
        Expr::ImagUnit => RV::Unspec("not number"),
        Expr::At => RV::Val(NRef { v: at, typed: true }, Q::Exact),
        Expr::Pi => RV::Val(
            NRef {
                v: NV::Float(std::f64::consts::PI),
                typed: true,
            },
            Q::Exact,
        ),
        Expr::E => RV::Val(
            NRef {
                v: NV::Float(std::f64::consts::E),
                typed: true,
            },
            Q::Exact,
        ),
        Expr::Pos(x) => eval(x, at),
        Expr::Neg(x) => match eval(x, at) {
            RV::Val(_, Q::Lambert(_)) => RV::Val(NRef { v: NV::Float(f64::NAN), typed: false }, Q::Skip),
            RV::Val(r, q) => match r.v {
                NV::Int(i) if r.typed => int_or_float(-(i as i128), -(i as f64), q),
                // an exact integer of uncertain variant (the result of min / max / med over Integers): its negation
                // is that integer negated, not the negation of its rounded double
                NV::Int(i) if i != i64::MIN => RV::Val(NRef { v: NV::Int(-i), typed: false }, q),
                v => num(-v.f(), q),
            },
            o => o,
        },
        Expr::Group(k, x) => match eval(x, at) {
            RV::Val(r, q) => match k {
                GroupKind::Paren => RV::Val(r, q),
                GroupKind::Floor => rounding(r, q, f64::floor),
                GroupKind::Ceil => rounding(r, q, f64::ceil),
            },
            o => o,
        },
        Expr::Sup(x, d) => match eval(x, at) {
            RV::Val(r, q) => match crate::ev_i64::lit(d) {
                Some(e) => pow(
                    r,
                    NRef {
                        v: NV::Int(e),
                        typed: true,
                    },
                    down(q),
                ),
                None => RV::Unspec("U2: superscript beyond i64"),
            },
            o => o,
        },
        Expr::Post(p, x) => match eval(x, at) {
            RV::Val(r, q) => match p {
                PostOp::Fact => factorial(r, q),
                PostOp::Deg => {
                    let v = r.v.f() * crate::ev_f64::DEG;
                    match tol_of(q) {
                        Some(_) if r.v.f().is_finite() && !(v.abs() < 1e300) => num(v, Q::Skip),
                        Some(t) => num(v, Q::Tol(t * crate::ev_f64::DEG + v.abs() * 1e-12)),
                        None => num(v, Q::Skip),
                    }
                }
                PostOp::Rad => {
                    let v = r.v.f() * crate::ev_f64::RAD;
                    match tol_of(q) {
                        Some(_) if r.v.f().is_finite() && !(v.abs() < 1e300) => num(v, Q::Skip),
                        Some(t) => num(v, Q::Tol(t * crate::ev_f64::RAD + v.abs() * 1e-9)),
                        None => num(v, Q::Skip),
                    }
                }
            },
            o => o,
        },
        Expr::Bin(b, l, r) => {
            let (a, aq) = match eval(l, at) {
                RV::Val(v, q) => (v, q),
                o => return o,
            };
            let (c, cq) = match eval(r, at) {
                RV::Val(v, q) => (v, q),
                o => return o,
            };
            binop(*b, a, aq, c, cq)
        }
        Expr::Call(f, args) => call(*f, args, at),
    }
}

/// Both operands are known to be Integers (variant certain)
fn both_int(a: NRef, c: NRef) -> Option<(i64, i64)> {
    match (a.v, c.v) {
        (NV::Int(x), NV::Int(y)) if a.typed && c.typed => Some((x, y)),
        _ => None,
    }
}

/// the variant of an operand is not certain (it came out of a Float step that may have been
/// canonicalised to Integer): only safe when Integer and Float arithmetic agree
fn variant_uncertain(a: NRef) -> bool {
    !a.typed
}

/// a zero whose variant is not certain: an Integer 0 has no sign, a Float zero may be -0.0
fn zero_uncertain(a: NRef) -> bool {
    !a.typed && a.v.f() == 0.0
}

fn binop(b: BinOp, a: NRef, aq: Q, c: NRef, cq: Q) -> R {
    let both_exact = aq == Q::Exact && cq == Q::Exact;
    let (x, y) = (a.v.f(), c.v.f());
    // An operand whose variant is uncertain might be an Integer in the subject: Integer arithmetic and
    // double arithmetic agree as long as everything stays below 2^53 in magnitude.
    let uncertain = variant_uncertain(a) || variant_uncertain(c);
    let small = |v: f64| v.abs() < 9007199254740992.0;
    match b {
        BinOp::Add | BinOp::Sub | BinOp::Mul | BinOp::Impl => {
            if let Some((i, j)) = both_int(a, c) {
                let (e, fl) = match b {
                    BinOp::Add => (i as i128 + j as i128, i as f64 + j as f64),
                    BinOp::Sub => (i as i128 - j as i128, i as f64 - j as f64),
                    _ => (i as i128 * j as i128, i as f64 * j as f64),
                };
                return if both_exact {
                    int_or_float(e, fl, Q::Exact)
                } else {
                    int_or_float(e, fl, Q::Skip)
                };
            }
            let v = match b {
                BinOp::Add => x + y,
                BinOp::Sub => x - y,
                _ => x * y,
            };
            if uncertain && !(small(x) && small(y) && small(v)) {
                return num(v, Q::Skip);
            }
            let q = match b {
                BinOp::Add | BinOp::Sub => q_add(aq, cq, v),
                _ => q_mul(aq, x, cq, y, v),
            };
            num(v, q)
        }
        BinOp::Div if zero_uncertain(c) => num(x / y, Q::Skip),
        BinOp::Div => {
            if let Some((i, j)) = both_int(a, c) {
                let q = if both_exact { Q::Exact } else { Q::Skip };
                if j != 0 && (i as i128) % (j as i128) == 0 {
                    return int_or_float(i as i128 / j as i128, i as f64 / j as f64, q);
                }
                return typed_float(i as f64 / j as f64, q);
            }
            let v = x / y;
            if uncertain && !(small(x) && small(y)) {
                return num(v, Q::Skip);
            }
            num(v, q_div(aq, x, cq, y, v))
        }
        BinOp::Rem => {
            let q = if both_exact { Q::Exact } else { Q::Skip };
            if let Some((i, j)) = both_int(a, c) {
                if j == 0 {
                    return typed_float(i as f64 % j as f64, q);
                }
                return int_or_float(i as i128 % j as i128, i as f64 % j as f64, q);
            }
            if uncertain && !(small(x) && small(y)) {
                return num(x % y, Q::Skip);
            }
            num(x % y, q)
        }
        BinOp::Pow => pow(a, c, if both_exact { Q::Exact } else { Q::Skip }),
        _ => RV::Unspec("not number"),
    }
}

fn pow(a: NRef, c: NRef, q: Q) -> R {
    if let Some((i, j)) = both_int(a, c) {
        if j < 0 {
            // C09 fixes only exponents 0..4294967295 and C15 excepts this case from bit-for-bit agreement with
            // eval_f64, but the operation still is x^y (C10): the reciprocal of the integer power, within 1e-9
            let v = (i as f64).powf(j as f64);
            if i == 0 || !v.is_finite() || v == 0.0 || v.abs() < 1e-300 {
                return RV::Unspec("U3: Integer raised to a negative Integer: zero base or underflow");
            }
            return num(v, if q == Q::Exact { Q::Tol(v.abs() * 1e-9) } else { Q::Skip });
        }
        if j > u32::MAX as i64 {
            // outside C09's exponent range, so the variant is open; the value is still x^y (C10, C15)
            let v = (i as f64).powf(j as f64);
            return num(v, if q == Q::Exact { Q::Tol(0.0) } else { Q::Skip });
        }
        return match crate::ev_i64::pow_i128(i as i128, j as u64) {
            Some(v) => int_or_float(v, (i as f64).powf(j as f64), q),
            None => typed_float((i as f64).powf(j as f64), q),
        };
    }
    let (x, y) = (a.v.f(), c.v.f());
    if zero_uncertain(a) && y < 0.0 {
        return num(x.powf(y), Q::Skip);
    }
    if variant_uncertain(a) || variant_uncertain(c) {
        // could be Integer^Integer in the subject: exact integer power and powf agree only when small
        let v = x.powf(y);
        if !(v.abs() < 9007199254740992.0 && x.abs() < 9007199254740992.0 && y >= 0.0) {
            return num(v, Q::Skip);
        }
        if x.fract() == 0.0 && y.fract() == 0.0 {
            // integral doubles: powf is exact here whenever the result is below 2^53
            return num(v, q);
        }
    }
    num(x.powf(y), q)
}

fn rounding(r: NRef, q: Q, f: fn(f64) -> f64) -> R {
    match r.v {
        // an integer value whose variant is open (the result of an aggregate): its numeric value is that integer, which
        // a detour through a double would round beyond 2^53
        NV::Int(i) if !r.typed => RV::Val(
            NRef {
                v: NV::Int(i),
                typed: false,
            },
            down(q),
        ),
        NV::Int(i) if r.typed => RV::Val(
            NRef {
                v: NV::Int(i),
                typed: true,
            },
            down(q),
        ),
        v => num(f(v.f()), down(q)),
    }
}

fn factorial(r: NRef, q: Q) -> R {
    match r.v {
        NV::Int(n) if r.typed => {
            if n < 0 {
                return RV::Unspec("U3: factorial of a negative integer");
            }
            if n <= 20 {
                let mut p: i128 = 1;
                for i in 2..=n as i128 {
                    p *= i;
                }
                return RV::Val(
                    NRef {
                        v: NV::Int(p as i64),
                        typed: true,
                    },
                    down(q),
                );
            }
            match crate::ev_f64::factorial(n as f64, q) {
                RV::Val(v, _) => approx(q, v),
                RV::MustErr(m) => RV::MustErr(m),
                RV::Unspec(m) => RV::Unspec(m),
            }
        }
        v => {
            let x = v.f();
            if x.is_nan() || x.is_infinite() {
                return RV::Unspec("U3: factorial of a non-finite value");
            }
            if x.fract() == 0.0 {
                if x < 0.0 {
                    return RV::Unspec("U3: factorial of a negative integer");
                }
                if x > 170.0 {
                    return num(f64::INFINITY, down(q));
                }
                // an integral Float: Gamma(x+1), which is x! — the variant of the result is not specified
                let mut p = 1.0f64;
                let mut i = 2.0;
                while i <= x {
                    p *= i;
                    i += 1.0;
                }
                return approx(q, p);
            }
            if x.abs() > 150.0 {
                return RV::Unspec("U3: non-integer factorial beyond |x| <= 150");
            }
            approx(q, crate::ev_f64::gamma(x + 1.0))
        }
    }
}

fn call(f: Func, args: &[Node], at: NV) -> R {
    let mut vs: Vec<NRef> = Vec::new();
    let mut q = Q::Exact;
    for a in args {
        match eval(a, at) {
            RV::Val(v, vq) => {
                if vq != Q::Exact {
                    q = Q::Skip;
                }
                vs.push(v);
            }
            o => return o,
        }
    }
    use Func::*;
    let x = vs.first().map(|v| v.v.f()).unwrap_or(0.0);
    match f {
        Abs => match vs[0].v {
            NV::Int(i) if vs[0].typed => int_or_float((i as i128).abs(), (i as f64).abs(), q),
            // an integer whose variant is open (the result of an aggregate): still that integer, not its double
            NV::Int(i) if i != i64::MIN => RV::Val(
                NRef {
                    v: NV::Int(i.abs()),
                    typed: false,
                },
                q,
            ),
            v => num(v.f().abs(), q),
        },
        Sign => {
            if x.is_nan() {
                return RV::Unspec("U3: sgn(NaN)");
            }
            let s = if x > 0.0 {
                1
            } else if x < 0.0 {
                -1
            } else {
                0
            };
            match vs[0].v {
                NV::Int(_) if vs[0].typed => RV::Val(
                    NRef {
                        v: NV::Int(s),
                        typed: true,
                    },
                    q,
                ),
                _ => num(s as f64, q),
            }
        }
        Floor => rounding(vs[0], q, f64::floor),
        Ceil => rounding(vs[0], q, f64::ceil),
        Round => rounding(vs[0], q, f64::round),
        Trunc => rounding(vs[0], q, f64::trunc),
        Mod => binop(BinOp::Rem, vs[0], q, vs[1], q),
        Pow => pow(vs[0], vs[1], q),
        Sqrt => num(x.sqrt(), q),
        Sin => approx(q, x.sin()),
        Cos => approx(q, x.cos()),
        Tan => approx(q, x.tan()),
        Sinh => approx(q, x.sinh()),
        Cosh => approx(q, x.cosh()),
        Tanh => approx(q, x.tanh()),
        Asin => approx(q, x.asin()),
        Acos => approx(q, x.acos()),
        Atan => approx(q, x.atan()),
        Asinh => approx(q, crate::ev_f64::asinh_acc(x)),
        Acosh => approx(q, crate::ev_f64::acosh_acc(x)),
        Atanh => approx(q, crate::ev_f64::atanh_acc(x)),
        Atan2 if zero_uncertain(vs[0]) || zero_uncertain(vs[1]) => num(x.atan2(vs[1].v.f()), Q::Skip),
        Atan2 => approx(q, x.atan2(vs[1].v.f())),
        Ln => approx(q, x.ln()),
        Lb => approx(q, x.log2()),
        Log => approx(q, x.ln() / vs[1].v.f().ln()),
        Exp => approx(q, x.exp()),
        Exp2 => approx(q, x.exp2()),
        Root if zero_uncertain(vs[0]) || zero_uncertain(vs[1]) => num(vs[1].v.f().powf(1.0 / x), Q::Skip),
        Root => approx(q, vs[1].v.f().powf(1.0 / x)),
        LambertW => match crate::ev_f64::lambert(x, q) {
            RV::Val(_, lq) => num(f64::NAN, lq),
            RV::MustErr(m) => RV::MustErr(m),
            RV::Unspec(m) => RV::Unspec(m),
        },
        ILog => RV::Unspec("U3: ilog is not specified"),
        Min | Max | Avg | Med => {
            let fs: Vec<f64> = vs.iter().map(|v| v.v.f()).collect();
            if fs.iter().any(|v| !v.is_finite()) {
                return RV::Unspec("U3: aggregate of a non-finite argument");
            }
            if fs.is_empty() {
                return num(0.0, Q::Tol(0.0));
            }
            // all Integers: min, max and the odd-count median are one of the arguments, exactly (also beyond 2^53,
            // where two neighbours round to the same double)
            let ints: Vec<i64> = vs.iter().filter_map(|v| if let NV::Int(i) = v.v { Some(i) } else { None }).collect();
            if ints.len() == vs.len() && q == Q::Exact {
                let pick = match f {
                    Min => ints.iter().min().copied(),
                    Max => ints.iter().max().copied(),
                    Med if ints.len() % 2 == 1 => {
                        let mut s = ints.clone();
                        s.sort();
                        Some(s[s.len() / 2])
                    }
                    _ => None,
                };
                if let Some(m) = pick {
                    return RV::Val(NRef { v: NV::Int(m), typed: false }, Q::Exact);
                }
            }
            // Integers and Floats mixed: min, max and the odd-count median are still one of the arguments, by the order of
            // the exact values (an Integer beyond 2^53 and a Float that rounds to the same double are different numbers,
            // and C11 makes the result independent of the order of the arguments)
            if q == Q::Exact && (matches!(f, Min | Max) || (f == Med && vs.len() % 2 == 1)) {
                let mut s: Vec<NV> = vs.iter().map(|v| v.v).collect();
                s.sort_by(|a, b| cmp_nv(*a, *b));
                let pick = match f {
                    Min => s[0],
                    Max => s[s.len() - 1],
                    _ => s[s.len() / 2],
                };
                return RV::Val(NRef { v: pick, typed: false }, Q::Exact);
            }
            // (means of values beyond 2^53 go through doubles: the rounding of an Integer to its double is far inside the
            // tolerance of a mean, so nothing is excepted here any more)
            let tolz = if q == Q::Exact { Q::Tol(0.0) } else { Q::Skip };
            match f {
                Min => num(fs.iter().cloned().fold(f64::INFINITY, f64::min), tolz),
                Max => num(fs.iter().cloned().fold(f64::NEG_INFINITY, f64::max), tolz),
                Avg => {
                    let s: f64 = fs.iter().sum();
                    let sa: f64 = fs.iter().map(|v| v.abs()).sum();
                    let n = fs.len() as f64;
                    if (!s.is_finite() || !sa.is_finite()) && fs.iter().all(|v| v.is_finite()) {
                        // only the sum overflows: the mean itself always has a finite value
                        let (m, ma) = crate::rv::mean_scaled(&fs);
                        return num(m, if q == Q::Exact { Q::Tol(ma * 1e-14) } else { Q::Skip });
                    }
                    num(s / n, if q == Q::Exact { Q::Tol(sa * 1e-15) } else { Q::Skip })
                }
                _ => {
                    let mut s = fs.clone();
                    s.sort_by(|a, b| a.partial_cmp(b).unwrap());
                    let l = s.len();
                    if l % 2 == 1 {
                        num(s[l / 2], tolz)
                    } else {
                        let (a, b) = (s[l / 2], s[l / 2 - 1]);
                        let v = if !(a + b).is_finite() && a.is_finite() && b.is_finite() { a / 2.0 + b / 2.0 } else { (a + b) / 2.0 };
                        num(
                            v,
                            if q == Q::Exact {
                                Q::Tol((s[l / 2].abs() + s[l / 2 - 1].abs()) * 1e-15)
                            } else {
                                Q::Skip
                            },
                        )
                    }
                }
            }
        }
        Gcd | Lcm => RV::Unspec("not number"),
    }
}

/// order of the exact values of two finite numbers
fn cmp_nv(a: NV, b: NV) -> std::cmp::Ordering {
    use std::cmp::Ordering;
    fn int_float(i: i64, x: f64) -> Ordering {
        if x >= 1e30 {
            return Ordering::Less;
        }
        if x <= -1e30 {
            return Ordering::Greater;
        }
        let fl = x.floor();
        match (i as i128).cmp(&(fl as i128)) {
            Ordering::Equal => {
                if x > fl {
                    Ordering::Less
                } else {
                    Ordering::Equal
                }
            }
            o => o,
        }
    }
    match (a, b) {
        (NV::Int(x), NV::Int(y)) => x.cmp(&y),
        (NV::Int(x), NV::Float(y)) => int_float(x, y),
        (NV::Float(x), NV::Int(y)) => int_float(y, x).reverse(),
        (NV::Float(x), NV::Float(y)) => x.partial_cmp(&y).unwrap_or(Ordering::Equal),
    }
}

/// compare a subject Number (given as NV) with the reference
pub fn matches(got: NV, want: NRef, q: Q) -> bool {
    if q == Q::Skip {
        return true;
    }
    if want.typed {
        match (got, want.v) {
            (NV::Int(a), NV::Int(b)) => a == b,
            (NV::Float(a), NV::Float(b)) => f64_matches(a, b, q),
            _ => false,
        }
    } else {
        // numeric value only; an Integer result stands for exactly that integer, -0.0 == 0.0
        let g = got.f();
        let w = want.v.f();
        match q {
            Q::Exact => match (got, want.v) {
                // beyond 2^53 `n as f64` would round: compare the integers themselves
                (NV::Int(n), NV::Float(x)) => x.is_finite() && x.fract() == 0.0 && x.abs() < 1e30 && (x as i128) == n as i128,
                (NV::Int(n), NV::Int(m)) => n == m,
                (NV::Float(x), NV::Int(m)) => x.is_finite() && x.fract() == 0.0 && x.abs() < 1e30 && (x as i128) == m as i128,
                _ => g == w || (g.is_nan() && w.is_nan()),
            },
            _ => f64_matches(g, w, q),
        }
    }
}
