#!/usr/bin/env python3
"""Regenerates MANIFEST.json from the table below (kept next to the driver so both stay in step)."""
import json, subprocess, os
ROOT = os.path.dirname(os.path.abspath(__file__))
hooks_commit = subprocess.run(["git", "-C", "/repo", "log", "--format=%H", "--grep=^verif_hooks:"], capture_output=True, text=True).stdout.split()
CHECKS = {
 "C01": ("E-TOK + E-CHR + E-FAM", "bounded-exhaustive input-stream exploration (token/char DFS) with catch_unwind oracle, both arithmetic profiles",
         "Every token sequence up to the stated depth over each evaluator's complete vocabulary plus foreign tokens, every short character string and every pumped family up to 256 chars is executed on the real eval_* under release and overflow-checked profiles; any panic is a violation.",
         "catch_unwind observes unwinding panics only; inputs beyond the explored depth are covered only by the finite families", "§5 C01"),
 "C02": ("E-TOK + E-FAM", "bounded-exhaustive exploration of looping constructs with a deterministic step counter (hook) and a wall-clock watchdog",
         "All token sequences up to the bound over extreme literals and every looping construct, each run with the budget 4096+256*len armed through the verif_hooks counter.",
         "steps are those counted by the cfg-guarded ticks; uncounted loops are caught only by the 10 s watchdog", "§5 C02"),
 "C03": ("E-TOK + E-CHR + E-FAM", "bounded-exhaustive exploration against an independent shunting-yard reference recogniser",
         "Every token sequence (depth-bounded) and short character string is classified by the reference parser; Ok on a malformed input or Err on a well-formed, defined one is a violation.",
         "the reference grammar is the reading of C03/C04/C12; unspecified adjacency classes carry no demand", "§5 C03"),
 "C04": ("E-TOK", "bounded-exhaustive exploration of operator/operand sequences against a reference tree evaluation",
         "All operator/operand token sequences up to the depth bound (every pair, triple and quadruple of adjacent operators); value compared with the reference evaluation of the independently derived tree.",
         "operands are small primes so groupings differ in value; same arithmetic primitives on both sides", "§5 C04"),
"C05": ("E-TREE", "bounded-exhaustive enumeration of expression trees (depth<=2/3) over a boundary-value pool, bit-exact reference evaluation",
         "All trees of depth <= 2 (thorough: 3 over a sub-pool) over + - * / % ^ unary minus, abs floor ceil trunc round sqrt and the constants, with leaves from a 40-value boundary pool (subnormals, 2^53 neighbours, MAX, +-0, +-inf, NaN), each rendered through the public syntax, evaluated by eval_f64 and compared bit for bit.",
         "reference uses the std/libm primitive of the same name in the same process", "§5 C05"),
 "C06": ("E-TREE", "bounded-exhaustive enumeration of integer expression trees over a boundary pool against exact i128 arithmetic, both arithmetic profiles",
         "All trees of depth <= 2 (thorough: 3) over every i64 operator and abs sgn mod pow ! with leaves from the i64 boundary pool; result must be the exact integer or Err, under release and overflow-checked builds.",
         "x<<y that does not fit, MIN/-1 and exponents outside 0..2^32-1 carry no demand", "§5 C06"),
 "C07": ("E-TREE", "bounded-exhaustive enumeration of decimal expression trees against exact rational arithmetic on big integers",
         "All trees of depth <= 2 (thorough: 3) over + - * / % and unary minus with literals of varied scale and magnitude (27/28/29-digit boundaries, MAX, 10^-28); oracle is exact BigRational arithmetic.",
         "results between MAX and MAX+1 and non-representable sums/products carry no demand", "§5 C07"),
 "C08": ("E-TREE + E-TOK", "bounded-exhaustive enumeration of complex expression trees against independent principal-branch definitions; real operands against eval_f64",
         "Every operator and function at depth 1 over 16 generic complex operands plus real and imaginary literals, depth 2 for the exact operations, judged by own pair arithmetic and exp/ln/atan2 definitions; every operator/function on real operands compared with eval_f64; token exploration for the lexical part.",
         "operands are kept off branch cuts; tolerance checks are depth 1", "§5 C08"),
 "C09": ("E-TREE", "bounded-exhaustive enumeration of mixed Integer/Float expression trees against a typed reference evaluator",
         "All trees of depth <= 2 (thorough: 3) over + - * / % ^ unary minus abs sgn ! floor ceil round trunc with a typed pool (i64 extremes, 2^53 neighbours, halves, negative fractions); Integer-only steps checked for variant and value, Float steps for numeric value.",
         "the variant of results of Float steps is not specified and not compared", "§5 C09"),
 "C10": ("E-FUNC", "complete enumeration of the finite (evaluator, name/alias) vocabulary over a fixed argument grid",
         "Every function name, alias, constant and postfix operator of every evaluator applied to every point of a fixed grid (k/8, +-10^k, domain edges, quarter steps for x!), judged against libm / tgamma / the Lambert identity / exact rules.",
         "the elementary-function oracle is the host libm (checks the name->function mapping, argument order, constants); ilog/aggregates/gcd/lcm excluded as in the statement", "§5 C10"),
 "C11": ("E-AGG", "exhaustive enumeration of argument lists (all sequences = all permutations of all multisets) over small value pools",
         "Every argument list of length 1..4 over 6 values, 5 over 4 values, 5..8 over 3 values for min max avg med median (gcd lcm in i64), empty lists, a failing argument at every position.",
         "pool values exactly representable so sums are order independent", "§5 C11"),
 "C18": ("E-BITS", "complete enumeration of a finite partition of the 2^64 double patterns (sign x exponent x lowest set mantissa bit) with representatives",
         "Number::from(f64) is checked on 3 representatives of each of the 2*2048*53 classes on which its decision is constant, on the boundary doubles, and (thorough) on all 2^32 f32-embedded doubles; Number::from(i64) on every power of two +-1.",
         "soundness of the partition: finiteness, integrality and range membership depend only on sign, exponent and lowest set mantissa bit", "§5 C18"),
 "C19": ("E-LIT + E-TREE", "exhaustive enumeration of short literal strings and structured literal families against an exact big-integer rounding oracle; print/re-read on every explored result",
         "Every literal over {0 1 5 9 .} up to 6 (thorough 8) characters and the literal-shape families up to 400 digits, for every evaluator; every finite Ok result of the depth<=2 tree explorations printed and fed back.",
         "Display forms are those of std / rust_decimal / num_complex", "§5 C19"),
}
ALL = ["C%02d" % i for i in range(1, 21)]
checks = []
for pid, (engine, technique, text, note, ref) in CHECKS.items():
    checks.append({
        "property_id": pid,
        "quick_cmd": "./check %s quick" % pid,
        "thorough_cmd": "./check %s thorough" % pid,
        "evidence_file": "/verif/evidence/%s.json" % pid,
        "replay_cmd_template": "./check replay {path}",
        "engine": engine,
        "level_claimed": {"category": "model_checking", "text": text, "design_ref": "DESIGN.md " + ref},
        "level_note": note,
        "technique": technique,
    })
na = [{"property_id": p, "reason": "check not built yet (work in progress; see DESIGN.md §11)"} for p in ALL if p not in CHECKS]
m = {
 "version": 1,
 "setup_cmd": "./check setup",
 "hooks": {"guard": "cargo feature verif_hooks", "enable": "vx depends on string_calculator with features=[\"verif_hooks\"] (path /repo)",
           "baseline_off_cmd": "cd /repo && cargo test --workspace --no-fail-fast --offline",
           "source_commits": hooks_commit, "add_only": True},
 "engines": [
   {"name": "vx", "path": "/verif/harness/vx", "serves_properties": sorted(CHECKS), "kind_free_text": "stateless bounded-exhaustive explorers stepping the real eval_* entry points (E-TOK, E-CHR, E-FAM, E-TREE, E-HIST, E-SCHED)"},
   {"name": "refmodel", "path": "/verif/harness/refmodel", "serves_properties": sorted(CHECKS), "kind_free_text": "reference lexer, shunting-yard parser and evaluators (no dependency on /repo)"},
 ],
 "checks": checks,
 "not_applicable": na,
 "notes": "All checks are bounded-exhaustive explorations of the real code (model checking family); nothing samples. ./check rebuilds vx from /repo's working tree (content hash) before every run.",
}
json.dump(m, open(os.path.join(ROOT, "MANIFEST.json"), "w"), indent=1)
print("checks:", len(checks), "not_applicable:", len(na))
