#!/usr/bin/env python3
"""Regenerates MANIFEST.json from the table below (kept next to the driver so both stay in step)."""
import json, subprocess, os
ROOT = os.path.dirname(os.path.abspath(__file__))
hooks_commit = subprocess.run(["git", "-C", "/repo", "log", "--format=%H", "--grep=^verif_hooks:"], capture_output=True, text=True).stdout.split()
CHECKS = {
 "C01": ("E-TOK + E-CHR + E-FAM", "bounded-exhaustive input-stream exploration (token/char DFS) with catch_unwind oracle, both arithmetic profiles",
         "Every token sequence up to the stated depth over each evaluator's complete vocabulary plus foreign tokens, every short character string and every pumped family up to 256 chars is executed on the real eval_* under release and overflow-checked profiles; any panic is a violation.",
         "catch_unwind observes unwinding panics only; inputs beyond the explored depth are covered only by the finite families", "§5 C01"),
 "C02": ("E-TOK + E-FAM", "bounded-exhaustive exploration of looping constructs with a deterministic step counter (hook) and a wall-clock watchdog",
         "All token sequences up to the bound over extreme literals and every looping construct, each run with the budget 4096+256*len armed through the verif_hooks counter.",
         "steps are those counted by the cfg-guarded ticks; uncounted loops are caught only by the 10 s watchdog", "§5 C02"),
 "C03": ("E-TOK + E-CHR + E-FAM", "bounded-exhaustive exploration against an independent shunting-yard reference recogniser",
         "Every token sequence (depth-bounded) and short character string is classified by the reference parser; Ok on a malformed input or Err on a well-formed, defined one is a violation.",
         "the reference grammar is the reading of C03/C04/C12; unspecified adjacency classes carry no demand", "§5 C03"),
 "C04": ("E-TOK", "bounded-exhaustive exploration of operator/operand sequences against a reference tree evaluation",
         "All operator/operand token sequences up to the depth bound (every pair, triple and quadruple of adjacent operators); value compared with the reference evaluation of the independently derived tree.",
         "operands are small primes so groupings differ in value; same arithmetic primitives on both sides", "§5 C04"),
}
ALL = ["C%02d" % i for i in range(1, 21)]
checks = []
for pid, (engine, technique, text, note, ref) in CHECKS.items():
    checks.append({
        "property_id": pid,
        "quick_cmd": "./check %s quick" % pid,
        "thorough_cmd": "./check %s thorough" % pid,
        "evidence_file": "/verif/evidence/%s.json" % pid,
        "replay_cmd_template": "./check replay {path}",
        "engine": engine,
        "level_claimed": {"category": "model_checking", "text": text, "design_ref": "DESIGN.md " + ref},
        "level_note": note,
        "technique": technique,
    })
na = [{"property_id": p, "reason": "check not built yet (work in progress; see DESIGN.md §11)"} for p in ALL if p not in CHECKS]
m = {
 "version": 1,
 "setup_cmd": "./check setup",
 "hooks": {"guard": "cargo feature verif_hooks", "enable": "vx depends on string_calculator with features=[\"verif_hooks\"] (path /repo)",
           "baseline_off_cmd": "cd /repo && cargo test --workspace --no-fail-fast --offline",
           "source_commits": hooks_commit, "add_only": True},
 "engines": [
   {"name": "vx", "path": "/verif/harness/vx", "serves_properties": sorted(CHECKS), "kind_free_text": "stateless bounded-exhaustive explorers stepping the real eval_* entry points (E-TOK, E-CHR, E-FAM, E-TREE, E-HIST, E-SCHED)"},
   {"name": "refmodel", "path": "/verif/harness/refmodel", "serves_properties": sorted(CHECKS), "kind_free_text": "reference lexer, shunting-yard parser and evaluators (no dependency on /repo)"},
 ],
 "checks": checks,
 "not_applicable": na,
 "notes": "All checks are bounded-exhaustive explorations of the real code (model checking family); nothing samples. ./check rebuilds vx from /repo's working tree (content hash) before every run.",
}
json.dump(m, open(os.path.join(ROOT, "MANIFEST.json"), "w"), indent=1)
print("checks:", len(checks), "not_applicable:", len(na))
