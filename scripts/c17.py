#!/usr/bin/env python3
"""C17 — every feature subset builds, exports exactly the selected items, and behaves identically.

E-CONF: exhaustive over the 31 non-empty subsets of {eval_f64, eval_i64, eval_decimal, eval_complex, eval_number}.
  1. `cargo check` of /repo for every subset (build failure = violation).
  2. export surface: for every subset and every public item a one-line probe crate is compiled against the
     subset's rmeta; it must compile iff the item is selected.
  3. behaviour: `featprobe` (harness/featprobe) is built for each of the 30 proper subsets (4 parallel workers,
     each with its own target directory); it enumerates the same bounded input space for each enabled
     evaluator and prints a digest of all (input, placeholder, outcome bits); every digest must equal the
     digest of the all-features build. quick and thorough differ in the depth of that input space.
"""
import hashlib, itertools, json, os, shutil, subprocess, sys, time
from concurrent.futures import ThreadPoolExecutor

ROOT = os.path.dirname(os.path.dirname(os.path.abspath(__file__)))
REPO = os.environ.get("VERIF_REPO", "/repo")
TGT_CHECK = os.path.join(ROOT, "target", "conf-check")
TGT_PROBE = os.path.join(ROOT, "target", "conf")
FEATPROBE = os.path.join(ROOT, "harness", "featprobe")
FEATURES = ["eval_f64", "eval_i64", "eval_decimal", "eval_complex", "eval_number"]
SHORT = {"eval_f64": "f64", "eval_i64": "i64", "eval_decimal": "decimal", "eval_complex": "complex", "eval_number": "number"}
ITEMS = {"eval_f64": ["eval_f64"], "eval_i64": ["eval_i64"], "eval_decimal": ["eval_decimal"],
         "eval_complex": ["eval_complex"], "eval_number": ["eval_number", "Number"]}
ENV = dict(os.environ, CARGO_NET_OFFLINE="true")


def log(*a):
    print("[C17]", *a, file=sys.stderr, flush=True)


def repo_hash():
    h = hashlib.sha256()
    files = [os.path.join(REPO, "Cargo.toml"), os.path.join(REPO, "Cargo.lock")]
    for d, _, fs in sorted(os.walk(os.path.join(REPO, "src"))):
        for f in sorted(fs):
            files.append(os.path.join(d, f))
    for f in sorted(files):
        if os.path.exists(f):
            h.update(f.encode())
            h.update(open(f, "rb").read())
    return h.hexdigest()


def subsets():
    out = []
    for k in range(1, 6):
        for c in itertools.combinations(FEATURES, k):
            out.append(list(c))
    return out


WORKERS = 4


def cargo_check(sub, w=0):
    cmd = ["cargo", "check", "--offline", "--manifest-path", os.path.join(REPO, "Cargo.toml"), "--no-default-features",
           "--features", ",".join(sub), "--message-format=json", "--lib"]
    r = subprocess.run(cmd, env=dict(ENV, CARGO_TARGET_DIR="%s-w%d" % (TGT_CHECK, w)), capture_output=True, text=True)
    rmeta, errors, warnings = None, [], 0
    for line in r.stdout.splitlines():
        try:
            m = json.loads(line)
        except ValueError:
            continue
        if m.get("reason") == "compiler-artifact" and m.get("target", {}).get("name") == "string_calculator":
            for f in m.get("filenames", []):
                if f.endswith(".rmeta"):
                    rmeta = f
        if m.get("reason") == "compiler-message":
            lvl = m["message"].get("level")
            if lvl == "error":
                errors.append(m["message"].get("rendered", "")[:1500])
            elif lvl == "warning":
                warnings += 1
    return r.returncode == 0, rmeta, errors, warnings


def probe(rmeta, item, outdir):
    src = os.path.join(outdir, "probe_%s_%s.rs" % (hashlib.md5(rmeta.encode()).hexdigest()[:8], item.replace("::", "_")))
    with open(src, "w") as fh:
        fh.write("#[allow(unused_imports)]\npub use string_calculator::%s as _probe;\n" % item)
    deps = os.path.dirname(rmeta)
    cmd = ["rustc", "--edition", "2021", "--crate-type", "lib", "--emit=metadata", "--out-dir", outdir,
           "--crate-name", os.path.basename(src)[:-3], "-L", "dependency=" + deps, "--extern", "string_calculator=" + rmeta, src]
    r = subprocess.run(cmd, capture_output=True, text=True)
    return r.returncode == 0


def build_featprobe(sub, w=0):
    tgt = "%s-w%d" % (TGT_PROBE, w)
    cmd = ["cargo", "build", "--offline", "--release", "--features", ",".join(sub)]
    r = subprocess.run(cmd, cwd=FEATPROBE, env=dict(ENV, CARGO_TARGET_DIR=tgt), capture_output=True, text=True)
    if r.returncode != 0:
        return None, r.stderr[-3000:]
    bindir = os.path.join(TGT_PROBE, "bin")
    os.makedirs(bindir, exist_ok=True)
    dst = os.path.join(bindir, "featprobe-" + "+".join(SHORT[f] for f in sub))
    shutil.copy(os.path.join(tgt, "release", "featprobe"), dst)
    return dst, ""


def in_workers(items, fn):
    """Run fn(item, worker_index) over items with WORKERS parallel workers, each owning its target dir."""
    import queue, threading
    q = queue.Queue()
    for i, it in enumerate(items):
        q.put((i, it))
    out = [None] * len(items)

    def work(w):
        while True:
            try:
                i, it = q.get_nowait()
            except queue.Empty:
                return
            out[i] = fn(it, w)

    ts = [threading.Thread(target=work, args=(w,)) for w in range(WORKERS)]
    for t in ts:
        t.start()
    for t in ts:
        t.join()
    return out


def digests(exe, env):
    r = subprocess.run([exe], capture_output=True, text=True, env=env)
    out = {}
    for line in r.stdout.splitlines():
        p = line.split()
        if len(p) == 4 and p[0] == "DIGEST":
            out[p[1]] = (p[2], int(p[3]))
    return out


def first_difference(exe_a, exe_b, ev, env):
    a = subprocess.run([exe_a, "--dump", ev], capture_output=True, text=True, env=env).stdout.splitlines()
    b = subprocess.run([exe_b, "--dump", ev], capture_output=True, text=True, env=env).stdout.splitlines()
    for x, y in zip(a, b):
        if x != y:
            return x, y
    return (a[len(b)] if len(a) > len(b) else "", b[len(a)] if len(b) > len(a) else "")


def main():
    tier = sys.argv[1] if len(sys.argv) > 1 else "quick"
    t0 = time.time()
    violations, samples, notes = [], [], []
    # stale builds cannot produce verdicts: force the crate to be rebuilt when its content changed
    os.makedirs(TGT_CHECK, exist_ok=True)
    os.makedirs(TGT_PROBE, exist_ok=True)
    stamp = os.path.join(TGT_PROBE, ".repo_hash")
    want = repo_hash()
    have = open(stamp).read().strip() if os.path.exists(stamp) else ""
    if have != want:
        for w in range(WORKERS):
            subprocess.run(["cargo", "clean", "--offline", "--manifest-path", os.path.join(REPO, "Cargo.toml"), "-p", "string_calculator"],
                           env=dict(ENV, CARGO_TARGET_DIR="%s-w%d" % (TGT_CHECK, w)), capture_output=True)
            subprocess.run(["cargo", "clean", "--offline", "--release", "-p", "string_calculator"], cwd=FEATPROBE,
                           env=dict(ENV, CARGO_TARGET_DIR="%s-w%d" % (TGT_PROBE, w)), capture_output=True)
    subs = subsets()
    states = transitions = validated = 0
    # 1 + 2: build and export surface for all 31 subsets
    probe_dir = os.path.join(TGT_CHECK, "probes")
    shutil.rmtree(probe_dir, ignore_errors=True)
    os.makedirs(probe_dir, exist_ok=True)
    rmetas = {}
    checked = in_workers(subs, cargo_check)
    for sub, (ok, rmeta, errors, warnings) in zip(subs, checked):
        states += 1
        transitions += 1
        name = ",".join(sub)
        if not ok or rmeta is None:
            violations.append({"kind": "subset-does-not-build", "subset": sub, "expected": "cargo check succeeds",
                               "observed": (errors or ["cargo check failed"])[0]})
            continue
        validated += 1
        rmetas[name] = rmeta
    log("cargo check: %d subsets, %d build (%.1fs)" % (len(subs), len(rmetas), time.time() - t0))
    jobs = []
    all_items = ["eval_f64", "eval_i64", "eval_decimal", "eval_complex", "eval_number", "Number", "ParseError", "verif_hooks::tick"]
    for name, rmeta in rmetas.items():
        sub = name.split(",")
        selected = {"ParseError"}
        for f in sub:
            selected.update(ITEMS[f])
        for item in all_items:
            jobs.append((name, rmeta, item, item in selected))
    with ThreadPoolExecutor(max_workers=16) as ex:
        results = list(ex.map(lambda j: probe(j[1], j[2], probe_dir), jobs))
    for (name, rmeta, item, expect), got in zip(jobs, results):
        states += 1
        transitions += 1
        validated += 1
        if got != expect:
            violations.append({"kind": "export-surface", "subset": name.split(","), "item": item,
                               "expected": "exported" if expect else "not exported", "observed": "exported" if got else "not exported"})
    samples.append({"subset": subs[7], "export_probe": "pub use string_calculator::eval_f64 as _probe;"})
    log("export probes: %d (%.1fs)" % (len(jobs), time.time() - t0))
    # 3: behaviour digests
    depth_env = dict(os.environ, FEATPROBE_D1="3" if tier == "quick" else "4", FEATPROBE_D2="2")
    full_exe, err = build_featprobe(FEATURES)
    if full_exe is None:
        log("featprobe does not build with all features:\n" + err)
        return 2
    full = digests(full_exe, depth_env)
    if len(full) != 5:
        log("featprobe (all features) did not report five digests")
        return 2
    todo = [s for s in subs if len(s) < 5 and ",".join(s) in rmetas]

    def one(sub, w):
        exe, err = build_featprobe(sub, w)
        if exe is None:
            return (None, err, None)
        return (exe, "", digests(exe, depth_env))

    results = in_workers(todo, one)
    for sub, (exe, err, d) in zip(todo, results):
        states += 1
        transitions += 1
        if exe is None:
            violations.append({"kind": "subset-does-not-build", "subset": sub, "expected": "the probe crate builds against this subset",
                               "observed": err[-1200:]})
            continue
        for f in sub:
            ev = SHORT[f]
            if ev not in d:
                violations.append({"kind": "evaluator-missing", "subset": sub, "evaluator": ev, "expected": "digest reported", "observed": "none"})
                continue
            states += d[ev][1]
            transitions += d[ev][1]
            validated += d[ev][1]
            if d[ev] != full[ev]:
                x, y = first_difference(exe, full_exe, ev, depth_env)
                violations.append({"kind": "behaviour-differs", "subset": sub, "evaluator": ev,
                                   "expected": "same outcome as the all-features build: " + y, "observed": x})
        os.remove(exe)
    log("digests: %d subsets compared with the all-features build (%.1fs)" % (len(todo), time.time() - t0))
    samples.append({"all_features_digests": {k: v[0] for k, v in full.items()}, "inputs_per_evaluator": {k: v[1] for k, v in full.items()}})
    with open(stamp, "w") as fh:
        fh.write(want)
    # report
    REPLAYS = os.environ.get("VERIF_REPLAY_DIR") or os.path.join(ROOT, "replays")
    EVIDENCE = os.environ.get("VERIF_EVIDENCE_DIR") or os.path.join(ROOT, "evidence")
    os.makedirs(REPLAYS, exist_ok=True)
    known = []
    try:
        known = [k for k in json.load(open(os.path.join(ROOT, "known_findings.json"))).get("findings", []) if k.get("property") == "C17"]
    except Exception:
        pass
    unknown = []
    for v in violations:
        hit = [k for k in known if k.get("match", {}).get("subset") == v.get("subset") and k.get("match", {}).get("kind") == v["kind"]]
        if hit:
            print("KNOWN-FINDING: property=C17 %s" % hit[0].get("what", ""))
        else:
            unknown.append(v)
    replays = []
    for v in unknown[:12]:
        h = hashlib.sha256(json.dumps(v, sort_keys=True).encode()).hexdigest()[:16]
        path = os.path.join(REPLAYS, "C17-%s.json" % h)
        v["property"] = "C17"
        v["how_to_replay"] = "cargo build --offline --no-default-features --features %s  (then evaluate the input shown)" % ",".join(v.get("subset", []))
        json.dump(v, open(path, "w"), indent=1, ensure_ascii=False)
        print("VIOLATION property=C17 replay=%s" % path)
        print("  [%s] subset=%s expected %s / observed %s" % (v["kind"], ",".join(v.get("subset", [])), str(v.get("expected"))[:200], str(v.get("observed"))[:200]))
        replays.append(path)
    ev = {
        "property_id": "C17", "tier": tier, "seed": int(os.environ.get("VERIF_SEED", "0") or 0), "level": "model_checking",
        "coverage": {
            "states": max(states, 1), "transitions": max(transitions, 1), "traces_validated_against_impl": validated,
            "samples": samples, "exhaustive": True,
            "feature_subsets": len(subs), "subsets_that_build": len(rmetas), "export_probes": len(jobs),
            "behaviour_subsets_compared": ["+".join(SHORT[f] for f in s) for s in todo],
            "inputs_per_evaluator": {k: v[1] for k, v in full.items()},
            "explanation": "configurations are enumerated exhaustively (31 subsets); per configuration the evaluators are stepped over the same bounded input space as the all-features build and the outcome digests compared",
            "replays": replays,
        },
        "assumptions": ["the all-features build is the reference behaviour; digests cover token sequences over Σ_class (depth 3/4), Σ_full (depth 2), Σ_ops and a fixed corpus, with 5 placeholders",
                        "export surface is probed for the seven public items and for verif_hooks (must be absent); other accidental exports are not enumerated"],
        "wall_s": time.time() - t0, "violations": len(unknown),
    }
    os.makedirs(EVIDENCE, exist_ok=True)
    json.dump(ev, open(os.path.join(EVIDENCE, "C17.json"), "w"), indent=1, ensure_ascii=False)
    return 1 if unknown else 0


if __name__ == "__main__":
    sys.exit(main())
